package main

import (
	"bufio"
	"encoding/json"
	"fmt"
	"io"
	"math/rand"
	"os"
	"path/filepath"
	"sort"
	"strconv"
	"strings"
	"sync"

	"github.com/ChrisTrenkamp/xsel"
)

// One generator line (spec/XGen.tla EmitLine): either a pool declaration or a
// document with its cases.
type GenLine struct {
	Fam   string            `json:"fam"`
	Pool  []Expr            `json:"pool,omitempty"`
	Doc   Doc               `json:"doc,omitempty"`
	Env   *Env              `json:"env,omitempty"`
	Cases []json.RawMessage `json:"cases,omitempty"`
	Raw   json.RawMessage   `json:"-"`
}

type GenCase struct {
	Ctx int   `json:"ctx"`
	E   *Expr `json:"e"`
	R   Val   `json:"r"`
	Env *Env  `json:"env,omitempty"` // overrides the line's environment
	K   *Val  `json:"k,omitempty"`   // the recorded deviant value under the open known-finding switches
}

type Report struct {
	Lines       int            `json:"lines"`
	Docs        int            `json:"docs"`
	Cases       int            `json:"cases"`
	Judged      int            `json:"judged"`
	Skipped     int            `json:"skipped"`
	Distinct    int            `json:"distinct"`
	Nontrivial  int            `json:"distinct_nontrivial"`
	FailCounts  map[string]int `json:"fail_counts"`
	KnownCounts map[string]int `json:"known_counts"`
	Failures    []Failure      `json:"failures"`
	Known       []Failure      `json:"known_samples"`
	Samples     []any          `json:"samples"`
	Infra       []string       `json:"infra"`
	mu          sync.Mutex
	seen        map[uint64]bool
	nontriv     map[uint64]bool
	replayDir   string
	maxKeep     int
}

func newReport(replayDir string) *Report {
	return &Report{FailCounts: map[string]int{}, KnownCounts: map[string]int{}, seen: map[uint64]bool{}, nontriv: map[uint64]bool{},
		replayDir: replayDir, maxKeep: 40}
}

// decodeTLCLine: TLC prints PrintT(ToJson(x)) as a quoted TLA+ string; accept that,
// and plain JSON objects too.
func decodeTLCLine(line string) (string, bool) {
	line = strings.TrimSpace(line)
	if strings.HasPrefix(line, "{") {
		return line, true
	}
	if strings.HasPrefix(line, "\"{") {
		var s string
		if err := json.Unmarshal([]byte(line), &s); err == nil {
			return s, true
		}
	}
	return "", false
}

func (r *Report) addFailure(f Failure, payload any) {
	r.mu.Lock()
	defer r.mu.Unlock()
	if f.Finding != "" {
		r.KnownCounts[f.Finding]++
		if countFinding(r.Known, f.Finding) < 3 {
			r.Known = append(r.Known, f)
		}
		return
	}
	r.FailCounts[f.Aspect]++
	if countAspect(r.Failures, f.Aspect) < r.maxKeep {
		if r.replayDir != "" && payload != nil {
			b, _ := json.Marshal(payload)
			name := fmt.Sprintf("%s-%016x.json", strings.ReplaceAll(f.Fam, "/", "_"), hash64(b))
			os.MkdirAll(r.replayDir, 0o755)
			p := filepath.Join(r.replayDir, name)
			os.WriteFile(p, b, 0o644)
			f.Replay = p
		}
		r.Failures = append(r.Failures, f)
	}
}

func countAspect(fs []Failure, a string) int {
	n := 0
	for _, f := range fs {
		if f.Aspect == a {
			n++
		}
	}
	return n
}
func countFinding(fs []Failure, a string) int {
	n := 0
	for _, f := range fs {
		if f.Finding == a {
			n++
		}
	}
	return n
}

// A replay file: one complete case, re-executable with `harness replay-one`.
type ReplayCase struct {
	Fam  string `json:"fam"`
	Doc  Doc    `json:"doc"`
	Env  *Env   `json:"env"`
	Ctx  int    `json:"ctx"`
	E    *Expr  `json:"e"`
	R    Val    `json:"r"`
	Text string `json:"text,omitempty"`
	Why  string `json:"why,omitempty"`
}

func processDocLine(gl *GenLine, pool []Expr, rep *Report, fnd *Findings) {
	env := gl.Env
	if env == nil {
		env = &Env{}
	}
	b, err := Build(gl.Doc)
	if err != nil {
		rep.addFailure(Failure{Aspect: "tree", Fam: gl.Fam, Detail: "CreateInMemory failed on a conforming event stream: " + err.Error()},
			map[string]any{"fam": gl.Fam, "doc": gl.Doc})
		return
	}
	for _, ft := range b.Faults {
		rep.addFailure(Failure{Aspect: "tree", Fam: gl.Fam, Detail: ft}, map[string]any{"fam": gl.Fam, "doc": gl.Doc})
	}
	docJSON, _ := json.Marshal(gl.Doc)
	envJSON, _ := json.Marshal(env)
	var cases, judgedN, skipped int
	var cmu sync.Mutex // guards the three counters when the cases run concurrently
	one := func(ci int, raw json.RawMessage) {
		var gc GenCase
		if len(raw) > 0 && raw[0] == '[' {
			var arr []json.RawMessage
			if err := json.Unmarshal(raw, &arr); err != nil || (len(arr) != 3 && len(arr) != 4) {
				rep.infra("bad compact case")
				return
			}
			var ei int
			json.Unmarshal(arr[0], &gc.Ctx)
			json.Unmarshal(arr[1], &ei)
			json.Unmarshal(arr[2], &gc.R)
			if len(arr) == 4 {
				gc.K = &Val{}
				json.Unmarshal(arr[3], gc.K)
			}
			if ei < 1 || ei > len(pool) {
				rep.infra("pool index out of range")
				return
			}
			gc.E = &pool[ei-1]
		} else if err := json.Unmarshal(raw, &gc); err != nil {
			rep.infra("bad case: " + err.Error())
			return
		}
		cmu.Lock()
		cases++
		cmu.Unlock()
		env := env
		envJSON := envJSON
		if gc.Env != nil {
			env = gc.Env
			envJSON, _ = json.Marshal(env)
		}
		styles := baseStyles
		if strings.HasPrefix(gl.Fam, "C08.") {
			rng := rand.New(rand.NewSource(int64(ci) + seedFromEnv()))
			styles = []Style{{}, {Abbrev: true, Space: 1}, {FullParens: true, Space: 2, Rng: rng, PadNum: 1}, {Abbrev: true, FullParens: true, Space: 2, Rng: rng, PadNum: 2}}
		}
		if strings.HasPrefix(gl.Fam, "C06") || strings.HasPrefix(gl.Fam, "C05") || strings.HasPrefix(gl.Fam, "C04n") {
			// number literals also in their other spellings: 010 and 10.0 are the number 10 (decimal, whatever the digits)
			styles = append(append([]Style{}, baseStyles...), Style{Space: 1, PadNum: 1}, Style{PadNum: 2})
		}
		fails, judged, text := b.judgeExec(gl.Fam, env, gc.Ctx, gc.E, gc.R, styles)
		if gl.Fam == "C04.nodes" && gc.E.Op == "call" && str(gc.E.Lo) == "string" && len(gc.E.Args) == 0 && gc.R.T == "str" {
			// the convenience function must agree with string(.)
			var cs []string
			json.Unmarshal(gc.R.V, &cs)
			if c, ok := b.ByID[gc.Ctx]; ok {
				if got := getCursorStringSafe(c); got != str(cs) {
					fails = append(fails, Failure{Aspect: "value", Fam: gl.Fam, Text: "GetCursorString(node)", Ctx: gc.Ctx,
						Detail: fmt.Sprintf("expected %q got %q", str(cs), got)})
				}
			}
		}
		if !judged && len(fails) == 0 {
			cmu.Lock()
			skipped++
			cmu.Unlock()
			return
		}
		if judged {
			cmu.Lock()
			judgedN++
			cmu.Unlock()
		}
		eJSON, _ := json.Marshal(gc.E)
		h := hash64(docJSON, envJSON, []byte(fmt.Sprint(gc.Ctx)), eJSON)
		rep.mu.Lock()
		if !rep.seen[h] {
			rep.seen[h] = true
			if nontrivial(gc.R) {
				rep.nontriv[h] = true
			}
		}
		if len(rep.Samples) < 3 && (ci%97 == 3 || len(gl.Cases) < 4) && nontrivial(gc.R) {
			rep.Samples = append(rep.Samples, map[string]any{"fam": gl.Fam, "doc": gl.Doc, "ctx": gc.Ctx, "xpath": text, "expected": gc.R})
		}
		rep.mu.Unlock()
		knownSwitch := ""
		if len(fails) > 0 && gc.K != nil {
			// does the real code show exactly the recorded behaviour of the open known findings?
			if kf, _, _ := b.judgeExec(gl.Fam, env, gc.Ctx, gc.E, *gc.K, baseStyles); len(kf) == 0 {
				knownSwitch = fnd.switchID()
			}
		}
		for _, f := range fails {
			if knownSwitch != "" {
				f.Finding = knownSwitch
				rep.addFailure(f, nil)
				continue
			}
			if f.Aspect == "harness" {
				rep.infra(f.Detail)
				continue
			}
			rc := &ReplayCase{Fam: gl.Fam, Doc: gl.Doc, Env: env, Ctx: gc.Ctx, E: gc.E, R: gc.R, Text: f.Text, Why: f.Aspect + ": " + f.Detail}
			f.Finding = fnd.classify(&f, rc, b)
			rep.addFailure(f, rc)
		}
	}
	if k := caseConc(); k > 1 {
		// C14: the cases of this line are evaluated by k goroutines at once on the ONE tree built above, sharing
		// the compiled expressions and the bindings; every result is still judged against the specification
		type job struct {
			ci  int
			raw json.RawMessage
		}
		ch := make(chan job, 64)
		var wg sync.WaitGroup
		for i := 0; i < k; i++ {
			wg.Add(1)
			go func() {
				defer wg.Done()
				for j := range ch {
					one(j.ci, j.raw)
				}
			}()
		}
		for ci, raw := range gl.Cases {
			ch <- job{ci, raw}
		}
		close(ch)
		wg.Wait()
	} else {
		for ci, raw := range gl.Cases {
			one(ci, raw)
		}
	}
	rep.mu.Lock()
	rep.Docs++
	rep.Cases += cases
	rep.Judged += judgedN
	rep.Skipped += skipped
	rep.mu.Unlock()
}

func caseConc() int {
	if v, err := strconv.Atoi(os.Getenv("VERIF_CASE_CONC")); err == nil && v > 1 {
		return v
	}
	return 1
}

func (r *Report) infra(s string) {
	r.mu.Lock()
	if len(r.Infra) < 20 {
		r.Infra = append(r.Infra, s)
	}
	r.mu.Unlock()
}

func (r *Report) finish() {
	r.Distinct = len(r.seen)
	r.Nontrivial = len(r.nontriv)
	sort.Slice(r.Failures, func(i, j int) bool { return r.Failures[i].Aspect < r.Failures[j].Aspect })
}

// replayStream consumes generator output (TLC stdout) and judges every case.
func replayStream(in io.Reader, rep *Report, fnd *Findings, workers int) error {
	sc := bufio.NewReaderSize(in, 1<<20)
	pools := map[string][]Expr{}
	var poolMu sync.RWMutex
	jobs := make(chan *GenLine, 64)
	var wg sync.WaitGroup
	for i := 0; i < workers; i++ {
		wg.Add(1)
		go func() {
			defer wg.Done()
			for gl := range jobs {
				poolMu.RLock()
				p := pools[gl.Fam]
				poolMu.RUnlock()
				processDocLine(gl, p, rep, fnd)
			}
		}()
	}
	for {
		line, err := sc.ReadString('\n')
		if s, ok := decodeTLCLine(line); ok {
			gl := &GenLine{}
			if e := json.Unmarshal([]byte(s), gl); e != nil {
				rep.infra("undecodable generator line: " + e.Error())
			} else {
				rep.Lines++
				if hasOtherFamily(gl.Fam) {
					dispatchOther(s, gl.Fam, rep, fnd)
				} else if gl.Pool != nil {
					poolMu.Lock()
					pools[gl.Fam] = gl.Pool
					poolMu.Unlock()
				} else if gl.Doc != nil {
					jobs <- gl
				} else {
					dispatchOther(s, gl.Fam, rep, fnd)
				}
			}
		}
		if err != nil {
			break
		}
	}
	close(jobs)
	wg.Wait()
	rep.finish()
	return nil
}

func getCursorStringSafe(c store_Cursor) (s string) {
	defer func() {
		if r := recover(); r != nil {
			s = fmt.Sprintf("PANIC: %v", r)
		}
	}()
	return xsel.GetCursorString(c)
}

// families whose lines are not (doc, cases): filled in by other files
var otherFamilies = map[string]func(line string, rep *Report, fnd *Findings){}

func hasOtherFamily(fam string) bool {
	for prefix := range otherFamilies {
		if strings.HasPrefix(fam, prefix) {
			return true
		}
	}
	return false
}

func dispatchOther(line, fam string, rep *Report, fnd *Findings) {
	for prefix, fn := range otherFamilies {
		if strings.HasPrefix(fam, prefix) {
			fn(line, rep, fnd)
			return
		}
	}
	rep.infra("no handler for family " + fam)
}
