package main

import (
	"bytes"
	"encoding/json"
	"errors"
	"fmt"
	"io"
	"math/rand"
	"strings"

	"github.com/ChrisTrenkamp/xsel"
	"github.com/ChrisTrenkamp/xsel/node"
	"github.com/ChrisTrenkamp/xsel/parser"
	"github.com/ChrisTrenkamp/xsel/store"
)

// Adapter-level observation: wrap a parser.Parser and log every Pull().
type pullLogger struct {
	p    parser.Parser
	evs  []Event
	err  error
	done bool
}

func (l *pullLogger) Pull() (node.Node, bool, error) {
	n, end, err := l.p.Pull()
	switch {
	case err != nil:
		l.err = err
		l.done = true
	case end:
		l.evs = append(l.evs, Event{K: "end"})
	default:
		k, sp, lo, v := nodeFields(n)
		l.evs = append(l.evs, Event{K: k, Sp: sp, Lo: lo, V: v})
	}
	return n, end, err
}

// correlateCursor compares a real cursor tree with an abstract document.
func correlateCursor(root store.Cursor, d Doc) *Built {
	b := &Built{Root: root, ByID: map[int]store.Cursor{}, ID: map[store.Cursor]int{}, Doc: d}
	b.correlate(root)
	return b
}

func sameEvents(a, b []Event) (bool, string) {
	for i := 0; i < len(a) && i < len(b); i++ {
		x, y := a[i], b[i]
		if x.K != y.K || !eqChars(x.Sp, y.Sp) || !eqChars(x.Lo, y.Lo) || !eqChars(x.V, y.V) {
			return false, fmt.Sprintf("event %d: expected %s got %s", i+1, short2(x), short2(y))
		}
	}
	if len(a) != len(b) {
		return false, fmt.Sprintf("expected %d events, got %d", len(a), len(b))
	}
	return true, ""
}

func short2(v any) string { b, _ := json.Marshal(v); return string(b) }

// ---------------------------------------------------------------- JSON (C16)

type JVal struct {
	T string   `json:"t"`
	M []JMem   `json:"m,omitempty"`
	A []JVal   `json:"a,omitempty"`
	S []string `json:"s,omitempty"`
	N *Num     `json:"n,omitempty"`
	B bool     `json:"b,omitempty"`
}
type JMem struct {
	K []string `json:"k"`
	V JVal     `json:"v"`
}

func jsonString(cs []string, rng *rand.Rand) string {
	s := str(cs)
	var b strings.Builder
	b.WriteByte('"')
	for _, r := range s {
		switch {
		case r == '"' || r == '\\':
			b.WriteByte('\\')
			b.WriteRune(r)
		case r < 0x20 || (rng != nil && rng.Intn(6) == 0 && r < 0x10000):
			fmt.Fprintf(&b, "\\u%04x", r)
		default:
			b.WriteRune(r)
		}
	}
	b.WriteByte('"')
	return b.String()
}

// alternative spellings of a number that denote the same double
func jsonNumber(n Num, rng *rand.Rand) string {
	f, _ := n.Float()
	base := ""
	switch n.C {
	case "zero":
		base = "0"
		if n.S < 0 {
			base = "-0"
		}
	default:
		lit, _ := Num{C: "fin", S: 1, N: n.N, D: n.D}.literal()
		base = lit
		if n.S < 0 {
			base = "-" + lit
		}
	}
	_ = f
	if rng == nil {
		return base
	}
	switch rng.Intn(4) {
	case 0:
		if !strings.Contains(base, ".") {
			return base + ".0"
		}
		return base + "0"
	case 1:
		return base + "e0"
	case 2:
		if !strings.Contains(base, ".") && n.C != "zero" {
			return base + "0E-1"
		}
	}
	return base
}

func ws(rng *rand.Rand) string {
	if rng == nil {
		return ""
	}
	return []string{"", "", " ", "\n", "\t ", "\r\n"}[rng.Intn(6)]
}

func (v JVal) render(b *strings.Builder, rng *rand.Rand) {
	switch v.T {
	case "obj":
		b.WriteString("{" + ws(rng))
		for i, m := range v.M {
			if i > 0 {
				b.WriteString("," + ws(rng))
			}
			b.WriteString(jsonString(m.K, rng) + ws(rng) + ":" + ws(rng))
			m.V.render(b, rng)
			b.WriteString(ws(rng))
		}
		b.WriteString("}")
	case "arr":
		b.WriteString("[" + ws(rng))
		for i, x := range v.A {
			if i > 0 {
				b.WriteString("," + ws(rng))
			}
			x.render(b, rng)
			b.WriteString(ws(rng))
		}
		b.WriteString("]")
	case "str":
		b.WriteString(jsonString(v.S, rng))
	case "num":
		b.WriteString(jsonNumber(*v.N, rng))
	case "bool":
		if v.B {
			b.WriteString("true")
		} else {
			b.WriteString("false")
		}
	default:
		b.WriteString("null")
	}
}

func renderJSONDoc(vals []JVal, rng *rand.Rand) string {
	var b strings.Builder
	for i, v := range vals {
		if i > 0 {
			b.WriteString([]string{" ", "\n", "\t"}[i%3])
		}
		b.WriteString(ws(rng))
		v.render(&b, rng)
	}
	b.WriteString(ws(rng))
	return b.String()
}

// is the text a sequence of complete JSON values? (oracle: encoding/json's validating decoder)
func jsonComplete(text string) bool {
	dec := json.NewDecoder(strings.NewReader(text))
	for {
		var x any
		err := dec.Decode(&x)
		if err == io.EOF {
			return true
		}
		if err != nil {
			return false
		}
	}
}

type readResult struct {
	root  store.Cursor
	err   error
	panic any
}

func readSafe(f func() (xsel.Cursor, error)) (r readResult) {
	defer func() {
		if p := recover(); p != nil {
			r.panic = p
		}
	}()
	c, err := f()
	if c != nil {
		r.root = c
	}
	r.err = err
	return
}

func init() {
	otherFamilies["C16."] = func(line string, rep *Report, fnd *Findings) {
		var gl struct {
			Fam  string  `json:"fam"`
			Vals []JVal  `json:"vals"`
			Evs  []Event `json:"evs"`
			Doc  Doc     `json:"doc"`
		}
		if err := json.Unmarshal([]byte(line), &gl); err != nil {
			rep.infra("bad C16 line: " + err.Error())
			return
		}
		seed := int64(hash64([]byte(line))>>1) ^ seedFromEnv()
		fail := func(aspect, text, detail string) {
			rep.addFailure(Failure{Aspect: aspect, Fam: "C16.json", Text: text, Detail: detail}, map[string]any{"fam": "C16.json", "text": text, "line": json.RawMessage(line)})
		}
		texts := []string{renderJSONDoc(gl.Vals, nil)}
		for k := 0; k < 3; k++ {
			texts = append(texts, renderJSONDoc(gl.Vals, rand.New(rand.NewSource(seed+int64(k)))))
		}
		for _, text := range texts {
			// the public entry point
			r := readSafe(func() (xsel.Cursor, error) { return xsel.ReadJson(strings.NewReader(text)) })
			switch {
			case r.panic != nil:
				fail("panic", text, fmt.Sprint("ReadJson panicked: ", r.panic))
			case r.err != nil:
				fail("unexpected-error", text, "ReadJson failed on a valid text: "+r.err.Error())
			case r.root == nil:
				fail("nil-nil", text, "ReadJson returned nil, nil")
			default:
				b := correlateCursor(r.root, gl.Doc)
				for _, ft := range b.Faults {
					fail("tree", text, ft)
				}
			}
			// the adapter's event stream, pull by pull
			lg := &pullLogger{p: parser.ReadJson(strings.NewReader(text))}
			rr := readSafe(func() (xsel.Cursor, error) { return store.CreateInMemory(lg) })
			if rr.panic == nil && rr.err == nil {
				if ok, why := sameEvents(gl.Evs, lg.evs); !ok {
					fail("events", text, "Pull stream differs from the mapping: "+why)
				}
				if traceOut != nil {
					writeTrace(map[string]any{"ev": "store", "evs": nn(lg.evs), "snap": snapshot(rr.root)})
				}
			}
			rep.mu.Lock()
			rep.Cases++
			rep.Judged++
			rep.mu.Unlock()
		}
		// malformed: every proper prefix of the plain text that is not itself a sequence of complete
		// values, and single-character mutations, must be reported as an error
		plain := texts[0]
		tryBad := func(bad string) {
			if jsonComplete(bad) {
				return
			}
			r := readSafe(func() (xsel.Cursor, error) { return xsel.ReadJson(strings.NewReader(bad)) })
			rep.mu.Lock()
			rep.Cases++
			rep.Judged++
			rep.mu.Unlock()
			if r.panic != nil {
				fail("panic", bad, fmt.Sprint("ReadJson panicked: ", r.panic))
			} else if r.err == nil {
				fail("error-expected", bad, "malformed JSON accepted with a nil error")
			}
		}
		for p := 1; p < len(plain); p++ {
			tryBad(plain[:p])
		}
		rng := rand.New(rand.NewSource(seed))
		for k := 0; k < 8 && len(plain) > 0; k++ {
			p := rng.Intn(len(plain))
			mut := []byte(plain)
			mut[p] = "{}[],:\"x1 "[rng.Intn(10)]
			tryBad(string(mut))
			tryBad(plain[:p] + plain[p+1:])
		}
		h := hash64([]byte(line))
		rep.mu.Lock()
		if !rep.seen[h] {
			rep.seen[h] = true
			if len(gl.Evs) > 1 {
				rep.nontriv[h] = true
			}
		}
		if len(rep.Samples) < 3 && len(gl.Evs) > 4 {
			rep.Samples = append(rep.Samples, map[string]any{"json": texts[1], "expected_events": gl.Evs})
		}
		rep.mu.Unlock()
	}
	replayOneHandlers["C16."] = func(b []byte, fnd *Findings) bool {
		var rc struct {
			Line json.RawMessage `json:"line"`
		}
		json.Unmarshal(b, &rc)
		rep := newReport("")
		otherFamilies["C16."](string(rc.Line), rep, fnd)
		for _, f := range rep.Failures {
			fmt.Printf("REPRODUCED %s: %q :: %s\n", f.Aspect, f.Text, f.Detail)
		}
		return len(rep.Failures) > 0
	}
}

var _ = bytes.NewReader
var _ = errors.New
