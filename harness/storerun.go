package main

import (
	"bufio"
	"encoding/json"
	"fmt"
	"math/rand"
	"os"
	"os/exec"
	"runtime"
	"runtime/debug"
	"strconv"
	"sync"

	"github.com/ChrisTrenkamp/xsel/node"
	"github.com/ChrisTrenkamp/xsel/store"
)

// C10: run store.CreateInMemory on scripted event streams and snapshot every cursor
// reachable from the returned root; Trace_Store.tla is the judge.

type snapCursor struct {
	K   string   `json:"k"`
	Sp  []string `json:"sp"`
	Lo  []string `json:"lo"`
	V   []string `json:"v"`
	Pos int      `json:"pos"`
	Par int      `json:"par"`
	Ns  []int    `json:"ns"`
	At  []int    `json:"at"`
	Ch  []int    `json:"ch"`
}

func nodeFields(n node.Node) (k string, sp, lo, v []string) {
	sp, lo, v = []string{}, []string{}, []string{}
	switch x := n.(type) {
	case node.Namespace:
		return "ns", sp, codes(x.Prefix()), codes(x.NamespaceValue())
	case node.Attribute:
		return "attr", codes(x.Space()), codes(x.Local()), codes(x.AttributeValue())
	case node.CharData:
		return "text", sp, lo, codes(x.CharDataValue())
	case node.Comment:
		return "comment", sp, lo, codes(x.CommentValue())
	case node.ProcInst:
		return "pi", sp, codes(x.Target()), codes(x.ProcInstValue())
	}
	if x, ok := n.(node.NamedNode); ok {
		return "elem", codes(x.Space()), codes(x.Local()), v
	}
	return "root", sp, lo, v
}

// snapshot numbers the cursor objects by first visit (pre-order: the cursor, its
// namespaces, attributes, children) and records the lists as object numbers.
func snapshot(root store.Cursor) []snapCursor {
	ids := map[store.Cursor]int{}
	var out []snapCursor
	var visit func(c store.Cursor) int
	visit = func(c store.Cursor) int {
		if id, ok := ids[c]; ok {
			return id
		}
		if len(out) > 100000 {
			return 0
		}
		id := len(out) + 1
		ids[c] = id
		k, sp, lo, v := nodeFields(c.Node())
		out = append(out, snapCursor{K: k, Sp: sp, Lo: lo, V: v, Pos: c.Pos(), Ns: []int{}, At: []int{}, Ch: []int{}})
		var ns, at, ch []int
		for _, x := range c.Namespaces() {
			ns = append(ns, visit(x))
		}
		for _, x := range c.Attributes() {
			at = append(at, visit(x))
		}
		for _, x := range c.Children() {
			ch = append(ch, visit(x))
		}
		s := &out[id-1]
		s.Ns, s.At, s.Ch = nn(ns), nn(at), nn(ch)
		return id
	}
	visit(root)
	for c, id := range ids {
		if p := c.Parent(); p != nil {
			out[id-1].Par = ids[p] // 0 when the parent is not reachable from the root
		}
	}
	return out
}

var (
	traceOutMu sync.Mutex
	traceOut   *bufio.Writer
	traceFile  *os.File
)

func openTraceOut(path string) error {
	f, err := os.Create(path)
	if err != nil {
		return err
	}
	traceFile = f
	traceOut = bufio.NewWriterSize(f, 1<<20)
	return nil
}

func closeTraceOut() {
	if traceOut != nil {
		traceOut.Flush()
		traceFile.Close()
	}
}

// parseConc: how many goroutines read documents at once in the recorders (VERIF_PARSE_CONC, default 1)
func parseConc() int {
	if v, err := strconv.Atoi(os.Getenv("VERIF_PARSE_CONC")); err == nil && v > 1 {
		return v
	}
	return 1
}

func parallelDo(n, k int, f func(i int)) {
	if k <= 1 {
		for i := 0; i < n; i++ {
			f(i)
		}
		return
	}
	var wg sync.WaitGroup
	ch := make(chan int, 64)
	for w := 0; w < k; w++ {
		wg.Add(1)
		go func() {
			defer wg.Done()
			for i := range ch {
				f(i)
			}
		}()
	}
	for i := 0; i < n; i++ {
		ch <- i
	}
	close(ch)
	wg.Wait()
}

func writeTrace(v any) {
	b, _ := json.Marshal(v)
	traceOutMu.Lock()
	traceOut.Write(b)
	traceOut.WriteByte('\n')
	traceOutMu.Unlock()
}

func storeTraceLine(evs []Event) map[string]any {
	var root store.Cursor
	var err error
	var pan any
	func() {
		defer func() { pan = recover() }()
		root, err = buildFromEvents(evs)
	}()
	snap := []snapCursor{}
	if pan == nil && err == nil && root != nil {
		snap = snapshot(root)
	}
	line := map[string]any{"ev": "store", "evs": evs, "snap": snap}
	if pan != nil {
		line["panic"] = fmt.Sprint(pan)
	}
	if err != nil {
		line["err"] = err.Error()
	}
	return line
}

func (e Event) MarshalJSON() ([]byte, error) {
	switch e.K {
	case "elem":
		return json.Marshal(map[string]any{"k": e.K, "sp": nn(e.Sp), "lo": nn(e.Lo)})
	case "attr":
		return json.Marshal(map[string]any{"k": e.K, "sp": nn(e.Sp), "lo": nn(e.Lo), "v": nn(e.V)})
	case "ns", "pi":
		return json.Marshal(map[string]any{"k": e.K, "lo": nn(e.Lo), "v": nn(e.V)})
	case "text", "comment":
		return json.Marshal(map[string]any{"k": e.K, "v": nn(e.V)})
	}
	return json.Marshal(map[string]any{"k": e.K})
}

func init() {
	// direction A: TLC-generated conforming streams
	otherFamilies["C10."] = func(line string, rep *Report, fnd *Findings) {
		var gl struct {
			Evs []Event `json:"evs"`
		}
		if err := json.Unmarshal([]byte(line), &gl); err != nil {
			rep.infra("bad C10 line: " + err.Error())
			return
		}
		if traceOut == nil {
			rep.infra("C10 lines need -out")
			return
		}
		writeTrace(storeTraceLine(gl.Evs))
		rep.mu.Lock()
		rep.Cases++
		rep.Judged++
		rep.mu.Unlock()
	}
	// direction B: seeded random larger streams (documents of the random generator, plus
	// redundant redeclarations and surplus End events)
	commands["store-record"] = func(a *cmdArgs) int {
		if err := openTraceOut(a.out); err != nil {
			fmt.Fprintln(os.Stderr, err)
			return 2
		}
		defer closeTraceOut()
		rng := rand.New(rand.NewSource(seedFromEnv()*31337 + int64(a.sub)))
		g := &Gen{r: rng}
		// namespace scoping patterns, systematically: a parent declaring the default namespace and the prefixes p, q in every
		// order (every non-empty subset), a first child that undeclares the default (xmlns=""), overrides a prefix, does
		// both or neither, then a later sibling with a grandchild - the parent's list and what the later sibling inherits
		// must not depend on what the first child did
		var streams [][]Event
		decl := map[string]Event{"": {K: "ns", Lo: ch(""), V: uriU1}, "p": {K: "ns", Lo: ch("p"), V: uriU1}, "q": {K: "ns", Lo: ch("q"), V: uriU2}}
		for _, order := range [][]string{{""}, {"p"}, {"", "p"}, {"p", ""}, {"", "p", "q"}, {"p", "", "q"}, {"p", "q", ""}, {"q", "p"}, {"", "q"}, {"q", ""}} {
			for childDoes := 0; childDoes < 8; childDoes++ {
				out := []Event{{K: "elem", Lo: ch("r")}}
				for _, p := range order {
					out = append(out, decl[p])
				}
				out = append(out, Event{K: "attr", Lo: ch("x"), V: ch("1")}, Event{K: "elem", Lo: ch("first")})
				switch childDoes {
				case 1:
					out = append(out, Event{K: "ns", Lo: ch(""), V: ch("")})
				case 2:
					out = append(out, Event{K: "ns", Lo: ch("p"), V: uriU2})
				case 3:
					out = append(out, Event{K: "ns", Lo: ch("p"), V: uriU2}, Event{K: "ns", Lo: ch(""), V: ch("")})
				case 4:
					out = append(out, Event{K: "ns", Lo: ch(""), V: ch("")}, Event{K: "ns", Lo: ch("n1"), V: uriU1}, Event{K: "attr", Lo: ch("y"), V: ch("2")})
				case 5:
					out = append(out, Event{K: "ns", Lo: ch(""), V: uriU2}, Event{K: "ns", Lo: ch(""), V: ch("")})
				case 6:
					// a prefixed declaration with an empty URI is a binding of that prefix, not an undeclaration of the default
					out = append(out, Event{K: "ns", Lo: ch("p"), V: ch("")})
				case 7:
					out = append(out, Event{K: "ns", Lo: ch("q"), V: ch("")}, Event{K: "attr", Lo: ch("y"), V: ch("2")})
				}
				out = append(out, Event{K: "elem", Lo: ch("inner")}, Event{K: "end"}, Event{K: "end"},
					Event{K: "elem", Lo: ch("after")}, Event{K: "elem", Lo: ch("deep")}, Event{K: "text", V: ch("t")}, Event{K: "end"}, Event{K: "end"},
					Event{K: "comment", V: ch("c")},
					// processing instructions whose target merely begins with x-m-l are ordinary nodes
					Event{K: "pi", Lo: ch("xml-stylesheet"), V: ch("h")}, Event{K: "end"}, Event{K: "pi", Lo: ch("XMLthing"), V: ch("d")})
				streams = append(streams, out)
			}
		}
		for i := 0; i < a.n; i++ {
			d := g.Doc(4 + rng.Intn(40))
			evs := d.Events()
			var out []Event
			for j, e := range evs {
				out = append(out, e)
				// redundant redeclaration right after an element start
				if e.K == "elem" && rng.Intn(5) == 0 && (j+1 >= len(evs) || evs[j+1].K != "ns") {
					out = append(out, Event{K: "ns", Lo: ch("p"), V: uriU1})
					if rng.Intn(2) == 0 {
						out = append(out, Event{K: "ns", Lo: ch("p"), V: uriU2})
					}
				}
			}
			for rng.Intn(3) == 0 {
				out = append(out, Event{K: "end"})
				if rng.Intn(2) == 0 {
					out = append(out, Event{K: "comment", V: ch("late")})
				}
			}
			streams = append(streams, out)
		}
		// VERIF_PARSE_CONC > 1: that many goroutines build trees at once (each from its own stream); the lines are written in order
		lines := make([]any, len(streams))
		parallelDo(len(streams), parseConc(), func(i int) { lines[i] = storeTraceLine(streams[i]) })
		for _, l := range lines {
			writeTrace(l)
		}
		return 0
	}
	commands["store-one"] = func(a *cmdArgs) int {
		b, err := os.ReadFile(a.rest[0])
		if err != nil {
			return 2
		}
		var evs []Event
		if err := json.Unmarshal(b, &evs); err != nil {
			return 2
		}
		if err := openTraceOut(a.out); err != nil {
			return 2
		}
		defer closeTraceOut()
		writeTrace(storeTraceLine(evs))
		return 0
	}
	// long flat streams, in a child process with a capped stack
	commands["flat"] = func(a *cmdArgs) int {
		if err := openTraceOut(a.out); err != nil {
			fmt.Fprintln(os.Stderr, err)
			return 2
		}
		defer closeTraceOut()
		// nesting 0: the flat sequence hangs directly under the root (a fragment-style stream; top-level comments / PIs)
		for _, nesting := range []int{0, 1, 3} {
			cmd := exec.Command(os.Args[0], "flat-child", "-n", fmt.Sprint(a.n), "-sub", fmt.Sprint(nesting))
			outb, err := cmd.Output()
			line := map[string]any{"ev": "flat", "n": a.n, "nesting": nesting, "base": 0, "max": 0, "survived": false}
			if err == nil {
				var r struct{ Base, Max, Nodes int }
				if json.Unmarshal(outb, &r) == nil && r.Nodes >= a.n {
					line["base"], line["max"], line["survived"] = r.Base, r.Max, true
				}
			}
			writeTrace(line)
		}
		return 0
	}
	commands["flat-child"] = func(a *cmdArgs) int {
		debug.SetMaxStack(48 << 20)
		n, nesting := a.n, a.sub
		var evs []Event
		for i := 0; i < nesting; i++ {
			evs = append(evs, Event{K: "elem", Lo: ch("r")})
		}
		for i := 0; i < n; i++ {
			switch i % 4 {
			case 0:
				evs = append(evs, Event{K: "elem", Lo: ch("a")}, Event{K: "end"})
			case 1:
				if nesting == 0 {
					// (no character data at the top level) a surplus end event instead: tolerated by the contract
					evs = append(evs, Event{K: "pi", Lo: ch("t"), V: ch("d")}, Event{K: "end"})
				} else {
					evs = append(evs, Event{K: "text", V: ch("t")})
				}
			case 2:
				evs = append(evs, Event{K: "comment", V: ch("c")})
			default:
				evs = append(evs, Event{K: "elem", Lo: ch("b")}, Event{K: "attr", Lo: ch("x"), V: ch("1")}, Event{K: "end"})
			}
		}
		for i := 0; i < nesting; i++ {
			evs = append(evs, Event{K: "end"})
		}
		base, max := 0, 0
		pcs := make([]uintptr, 20000)
		s := &scripted{evs: evs, failAt: -1}
		step := len(evs) / 7
		s.onPull = func(i int) {
			if i == nesting || (i > nesting && i%step == 0) || i == len(evs)-nesting-1 {
				d := runtime.Callers(0, pcs)
				if i == nesting {
					base = d
				}
				if d > max {
					max = d
				}
			}
		}
		root, err := store.CreateInMemory(s)
		if err != nil {
			return 3
		}
		nodes := 0
		var count func(c store.Cursor, depth int)
		count = func(c store.Cursor, depth int) {
			nodes += len(c.Children())
			if depth < nesting {
				for _, k := range c.Children() {
					count(k, depth+1)
				}
			}
		}
		count(root, 0)
		json.NewEncoder(os.Stdout).Encode(map[string]int{"Base": base, "Max": max, "Nodes": nodes})
		return 0
	}
}
