package main

import (
	"math/rand"
)

// Random generators for documents and expressions inside the domain on which the
// specification is exact (dyadic numerals of small magnitude, the abstract alphabet).
type Gen struct {
	r        *rand.Rand
	nsVars   []string // names of node-set variables available
	numVars  []string
	strVars  []string
	boundFns bool // the "bindings" environment is in force: user functions p:f, here(), q:pos(), string() (shadowing)
}

func ch(s string) []string { // "ab" -> ["a","b"]
	out := make([]string, 0, len(s))
	for _, r := range s {
		out = append(out, string(r))
	}
	return out
}

var (
	uriU1   = ch("u1")
	uriU2   = ch("u2")
	uriXML  = []string{"XMLNS"}
	elNames = [][]string{ch("a"), ch("b"), ch("c"), ch("a-b"), ch("text"), ch("self")}
	atNames = [][]string{ch("x"), ch("y"), ch("id")}
	spaces  = [][]string{{}, {}, uriU1, uriU2}
	texts   = [][]string{ch("1"), ch("2"), ch("10"), ch("9"), ch("1.5"), ch("0.25"), ch("-3"), {"sp", "2", "sp"}, ch("abc"), ch("a"), {},
		{"a", "sp", "sp", "b"}, {"w2", "a"}, {"w3"}, {"w4", "b"}, {"nl", "a", "tab"}, {"nbsp", "1"}, ch("1e2"), ch("+1"), ch("Infinity"), ch("NaN"), ch("0"), ch("-0"), ch(".5"), ch("5."),
		ch("0.1"), ch("0.2"), ch("19.99")} // decimal fractions that are not doubles: their sums depend on the order of addition
	langs = [][]string{ch("en"), ch("EN"), ch("en-US"), ch("en-us"), ch("fr"), ch("e"), {}, ch("en-GB-x")}
)

func (g *Gen) pick(xs [][]string) []string { return xs[g.r.Intn(len(xs))] }

// Doc builds a random well-formed abstract document with at most max nodes.
func (g *Gen) Doc(max int) Doc {
	d := Doc{{K: "root", P: 0, Sp: []string{}, Lo: []string{}, V: []string{}}}
	type scope map[string][]string
	var fill func(parent int, depth int, inscope scope, porder []string)
	add := func(n Node) int {
		if n.Sp == nil {
			n.Sp = []string{}
		}
		if n.Lo == nil {
			n.Lo = []string{}
		}
		if n.V == nil {
			n.V = []string{}
		}
		d = append(d, n)
		return len(d)
	}
	fill = func(parent int, depth int, inscope scope, porder []string) {
		nkids := g.r.Intn(4)
		if depth == 0 {
			nkids = 1 + g.r.Intn(3)
		}
		for i := 0; i < nkids && len(d) < max; i++ {
			switch k := g.r.Intn(10); {
			case k < 6 && depth < 4:
				e := add(Node{K: "elem", P: parent, Sp: g.pick(spaces), Lo: g.pick(elNames)})
				// namespace nodes: inherited, overridden or new -- the abstract order is
				// "inherited (overrides in place), then new" as in spec/Store.tla
				sc := scope{}
				order := []string{}
				// (n1..n6: now and then an element declares a burst of further prefixes, so that elements with five to
				// ten namespace nodes - own and inherited - occur, with and without attributes)
				prefixes := []string{"xml", "p", "q", "", "n1", "n2", "n3", "n4", "n5", "n6"}
				burst := g.r.Intn(10) == 0
				// inherited bindings keep the PARENT's order (the store copies the parent's list), new ones follow
				for _, p := range porder {
					if v, ok := inscope[p]; ok {
						sc[p] = v
						order = append(order, p)
					}
				}
				for _, p := range prefixes {
					if (len(p) != 2 && g.r.Intn(4) == 0) || (len(p) == 2 && burst && g.r.Intn(4) != 0) {
						var u []string
						switch p {
						case "xml":
							u = uriXML
						default:
							u = [][]string{uriU1, uriU2}[g.r.Intn(2)]
						}
						if _, ok := sc[p]; !ok {
							order = append(order, p)
						}
						sc[p] = u
					}
				}
				for _, p := range order {
					add(Node{K: "ns", P: e, Lo: ch(p), V: sc[p]}) // always the complete list: descendants inherit from it
				}
				used := map[string]bool{}
				for a := g.r.Intn(3); a > 0; a-- {
					nm, sp := g.pick(atNames), g.pick(spaces)
					val := g.pick(texts)
					if g.r.Intn(6) == 0 {
						nm, sp, val = ch("lang"), uriXML, g.pick(langs)
					}
					key := str(sp) + "|" + str(nm)
					if used[key] {
						continue
					}
					used[key] = true
					add(Node{K: "attr", P: e, Sp: sp, Lo: nm, V: val})
				}
				fill(e, depth+1, sc, order)
			case k < 8:
				// never two adjacent text nodes: the XPath data model has none
				if last := d[len(d)-1]; last.K == "text" && last.P == parent {
					continue
				}
				v := g.pick(texts)
				if len(v) == 0 {
					v = ch("t")
				}
				add(Node{K: "text", P: parent, V: v})
			case k < 9:
				add(Node{K: "comment", P: parent, V: g.pick(texts)})
			default:
				add(Node{K: "pi", P: parent, Lo: [][]string{ch("t"), ch("u")}[g.r.Intn(2)], V: g.pick(texts)})
			}
		}
	}
	fill(1, 0, scope{}, nil)
	return d
}

var axes = []string{"ancestor", "ancestor-or-self", "attribute", "child", "descendant", "descendant-or-self",
	"following", "following-sibling", "namespace", "parent", "preceding", "preceding-sibling", "self"}

func num(n int64, d int64) *Expr {
	s := 1
	if n < 0 {
		panic("negative literal")
	}
	if n == 0 {
		return &Expr{Op: "num", V: mkJSON(Num{C: "zero", S: 1})}
	}
	g := gcd(n, d)
	return &Expr{Op: "num", V: mkJSON(Num{C: "fin", S: s, N: n / g, D: d / g})}
}
func lit(cs []string) *Expr { return &Expr{Op: "lit", S: cs} }
func call(name string, args ...*Expr) *Expr {
	e := &Expr{Op: "call", Lo: ch(name)}
	for _, a := range args {
		e.Args = append(e.Args, *a)
	}
	return e
}
func bin(op string, l, r *Expr) *Expr { return &Expr{Op: op, L: l, R: r} }

func (g *Gen) test(ax string) *Test {
	if ax == "namespace" {
		return [](*Test){{K: "node"}, {K: "any"}}[g.r.Intn(2)]
	}
	switch g.r.Intn(12) {
	case 0:
		return &Test{K: "node"}
	case 1:
		return &Test{K: "text"}
	case 2:
		return &Test{K: "comment"}
	case 3:
		return &Test{K: "pi"}
	case 4:
		return &Test{K: "pit", Target: ch("t")}
	case 5, 6:
		return &Test{K: "any"}
	case 7:
		// (xml is NOT bound in the sessions' environments: an unbound prefix, and the one a library might be tempted to predeclare)
		return &Test{K: "nsany", Pre: []string{"p", "q", "p", "q", "p", "q", "xml"}[g.r.Intn(7)]}
	case 8:
		return &Test{K: "localany", Lo: g.name(ax)}
	case 9:
		return &Test{K: "name", Pre: []string{"p", "q", "p", "q", "p", "q", "xml"}[g.r.Intn(7)], Lo: g.name(ax)}
	}
	return &Test{K: "name", Lo: g.name(ax)}
}

func (g *Gen) name(ax string) []string {
	if ax == "attribute" {
		return g.pick(atNames)
	}
	return g.pick(elNames)
}

func (g *Gen) step(depth int, allowNsAxis bool) Step {
	ax := axes[g.r.Intn(len(axes))]
	if g.r.Intn(3) == 0 {
		ax = "child"
	}
	if ax == "namespace" && !allowNsAxis {
		ax = "descendant"
	}
	s := Step{Ax: ax, Test: g.test(ax)}
	if ax != "namespace" && depth > 0 {
		for n := g.r.Intn(3); n > 1; n-- { // 0, 0 or 1.. predicates
			s.Preds = append(s.Preds, *g.pred(depth - 1))
		}
		if g.r.Intn(3) == 0 {
			s.Preds = append(s.Preds, *g.pred(depth - 1))
		}
	}
	return s
}

func (g *Gen) steps(depth int, allowNsLast bool) []Step {
	n := 1 + g.r.Intn(3)
	out := make([]Step, 0, n)
	for i := 0; i < n; i++ {
		out = append(out, g.step(depth, allowNsLast && i == n-1))
	}
	return out
}

// NodeSet: a node-set valued expression; top: the value is the query result itself, so
// a final namespace-axis step is allowed (its relative order is never converted)
func (g *Gen) NodeSet(depth int, top bool) *Expr {
	switch k := g.r.Intn(12); {
	case k < 7 || depth <= 0:
		return &Expr{Op: "path", Abs: g.r.Intn(3) == 0, Steps: g.steps(depth, top)}
	case k < 9:
		return &Expr{Op: "union", L: g.NodeSet(depth-1, false), R: g.NodeSet(depth-1, false)}
	case k < 11:
		f := &Expr{Op: "filter", Prim: g.NodeSet(depth-1, false)}
		for n := g.r.Intn(2); n >= 0; n-- {
			f.Preds = append(f.Preds, *g.pred(depth - 1))
		}
		if g.r.Intn(2) == 0 {
			f.Steps = g.steps(depth-1, top)
		}
		return f
	default:
		if len(g.nsVars) > 0 {
			v := &Expr{Op: "var", Lo: ch(g.nsVars[g.r.Intn(len(g.nsVars))])}
			switch g.r.Intn(4) {
			case 0, 1:
				return &Expr{Op: "filter", Prim: v, Steps: g.steps(depth-1, top)}
			case 2:
				// a node test applied to the variable's own nodes ($v/self::a ...): nothing stands between
				// the caller's node-set and the step
				st := []Step{{Ax: "self", Test: g.test("self")}}
				if g.r.Intn(2) == 0 {
					st = append(st, g.steps(depth-1, top)...)
				}
				return &Expr{Op: "filter", Prim: v, Steps: st}
			}
			return v
		}
		return &Expr{Op: "path", Abs: true, Steps: g.steps(depth, top)}
	}
}

func (g *Gen) pred(depth int) *Expr {
	switch g.r.Intn(12) {
	case 0, 1:
		return num(int64(1+g.r.Intn(3)), 1)
	case 2:
		return call("last")
	case 3:
		return bin([]string{"eq", "lt", "le", "gt", "ge", "ne"}[g.r.Intn(6)], call("position"), num(int64(1+g.r.Intn(3)), 1))
	case 4:
		return bin("eq", bin("mod", call("position"), num(2, 1)), num(int64(g.r.Intn(2)), 1))
	case 5:
		return bin("sub", call("last"), num(1, 1))
	case 6:
		return num(3, 2)
	case 7:
		if depth > 0 {
			return g.NodeSet(depth-1, false)
		}
		return &Expr{Op: "path", Steps: []Step{g.step(0, false)}}
	case 8:
		return lit(g.pick(texts))
	}
	return g.Bool(depth)
}

func (g *Gen) Num(depth int) *Expr {
	if depth <= 0 {
		switch g.r.Intn(5) {
		case 0:
			return num(int64(g.r.Intn(12)), 1)
		case 1:
			return num(int64(g.r.Intn(30)), []int64{2, 4, 8}[g.r.Intn(3)])
		case 2:
			return call("position")
		case 3:
			return call("last")
		}
		return num(int64(g.r.Intn(4)), 1)
	}
	switch g.r.Intn(14) {
	case 0:
		return call("count", g.NodeSet(depth-1, true))
	case 1:
		return call("sum", g.NodeSet(depth-1, false))
	case 2:
		return bin([]string{"add", "sub", "mul"}[g.r.Intn(3)], g.Num(depth-1), g.Num(depth-1))
	case 3:
		return bin("div", g.Num(depth-1), num([]int64{0, 1, 2, 4, 8}[g.r.Intn(5)], 1))
	case 4:
		return bin("mod", g.Num(depth-1), g.Num(depth-1))
	case 5:
		return call("string-length", g.StrPlain(depth-1))
	case 6:
		return call("number", g.Any(depth-1))
	case 7:
		return call([]string{"floor", "ceiling", "round"}[g.r.Intn(3)], g.Num(depth-1))
	case 8:
		return &Expr{Op: "neg", A: g.Num(depth - 1)}
	case 9:
		if len(g.numVars) > 0 {
			return &Expr{Op: "var", Lo: ch(g.numVars[g.r.Intn(len(g.numVars))])}
		}
	case 10:
		return bin("div", g.Num(depth-1), g.Num(0))
	}
	return g.Num(0)
}

// StrPlain: strings whose characters are all in the alphabet with their true length
// (no namespace-uri()/name(): the XML namespace URI is one symbolic character)
func (g *Gen) StrPlain(depth int) *Expr {
	if depth <= 0 {
		return lit(g.pick(texts))
	}
	switch g.r.Intn(12) {
	case 0:
		return call("string", g.NodeSet(depth-1, false))
	case 1:
		return call("concat", g.StrPlain(depth-1), g.StrPlain(depth-1))
	case 2:
		return call("substring", g.StrPlain(depth-1), g.Num(depth-1))
	case 3:
		return call("substring", g.StrPlain(depth-1), g.Num(depth-1), g.Num(depth-1))
	case 4:
		return call([]string{"substring-before", "substring-after"}[g.r.Intn(2)], g.StrPlain(depth-1), g.StrPlain(0))
	case 5:
		return call("normalize-space", g.StrPlain(depth-1))
	case 6:
		return call("translate", g.StrPlain(depth-1), g.StrPlain(0), g.StrPlain(0))
	case 7:
		return call("local-name", g.NodeSet(depth-1, false))
	case 8:
		return call("string", g.Num(depth-1))
	case 9:
		return call("string", g.Bool(depth-1))
	case 10:
		if len(g.strVars) > 0 {
			return &Expr{Op: "var", Lo: ch(g.strVars[g.r.Intn(len(g.strVars))])}
		}
	}
	return lit(g.pick(texts))
}

func (g *Gen) Str(depth int) *Expr {
	if depth > 0 && g.r.Intn(6) == 0 {
		return call([]string{"name", "namespace-uri", "local-name"}[g.r.Intn(3)], g.NodeSet(depth-1, false))
	}
	return g.StrPlain(depth)
}

func (g *Gen) Bool(depth int) *Expr {
	if depth <= 0 {
		switch g.r.Intn(4) {
		case 0:
			return call("true")
		case 1:
			return call("false")
		case 2:
			return bin("eq", &Expr{Op: "path", Steps: []Step{{Ax: "self", Test: &Test{K: "node"}}}}, lit(g.pick(texts)))
		}
		return &Expr{Op: "path", Steps: []Step{g.step(0, false)}}
	}
	switch g.r.Intn(10) {
	case 0, 1, 2:
		return bin([]string{"eq", "ne", "lt", "le", "gt", "ge"}[g.r.Intn(6)], g.Any(depth-1), g.Any(depth-1))
	case 3:
		return bin([]string{"and", "or"}[g.r.Intn(2)], g.Bool(depth-1), g.Bool(depth-1))
	case 4:
		return call("not", g.Any(depth-1))
	case 5:
		return call("boolean", g.Any(depth-1))
	case 6:
		return call("lang", lit(g.pick(langs)))
	case 7:
		return call([]string{"contains", "starts-with"}[g.r.Intn(2)], g.Str(depth-1), g.Str(0))
	}
	return g.Bool(0)
}

func (g *Gen) bound(depth int) *Expr {
	switch g.r.Intn(6) {
	case 0:
		return &Expr{Op: "call", Pre: "p", Lo: ch("f"), Args: []Expr{*g.Num(depth), *g.Any(depth)}}
	case 1:
		return &Expr{Op: "filter", Prim: call("here"), Steps: g.steps(depth, false)}
	case 2:
		return &Expr{Op: "path", Abs: true, Steps: []Step{{Ax: "descendant", Test: &Test{K: "any"},
			Preds: []Expr{*bin("eq", &Expr{Op: "call", Pre: "q", Lo: ch("pos")}, num(int64(1+g.r.Intn(3)), 1))}}}}
	case 3:
		return call("string", g.Any(depth), g.Num(0)) // the user's string(): number of arguments
	case 4:
		return &Expr{Op: "var", Pre: "p", Lo: ch("s")}
	}
	return &Expr{Op: "var", Lo: ch("b")}
}

func (g *Gen) Any(depth int) *Expr {
	if g.boundFns && g.r.Intn(4) == 0 {
		return g.bound(depth - 1)
	}
	switch g.r.Intn(4) {
	case 0:
		return g.NodeSet(depth, false)
	case 1:
		return g.Num(depth)
	case 2:
		return g.Str(depth)
	}
	return g.Bool(depth)
}
