package main

import (
	"fmt"
	"sort"
	"strings"
	"unicode/utf8"
)

// Abstract characters (spec/XStr.tla): printable ASCII characters are
// themselves; the symbolic codes below are instantiated here.  The
// instantiation of the width/class representatives can be varied by seed
// (see setAlphabet) -- the specification only knows their class.
const xmlNsURI = "http://www.w3.org/XML/1998/namespace"

var codeToStr = map[string]string{
	"sp": " ", "tab": "\t", "nl": "\n", "cr": "\r",
	"nbsp": " ", "w2": "é", "w3": "中", "w4": "😀", "cm": "́", "wsl": "Ġ",
	"bom":   "\ufeff", // U+FEFF inside a document is an ordinary character (ZERO WIDTH NO-BREAK SPACE), not a byte order mark
	"XMLNS": xmlNsURI,
	"Z400":  z400, // a run of 400 zeros: "1" followed by it is a numeral far too large for a double
}

var z400 = strings.Repeat("0", 400)

var strToCode map[string]string

var alternates = map[string][]string{
	"nbsp": {" ", " ", "　", "\u0085"},
	"w2":   {"é", "ß", "Ω", "я"},
	"w3":   {"中", "€", "ह"},
	"w4":   {"😀", "𝒳", "𐍈"},
	"cm":   {"́", "̈"},
	"wsl":  {"Ġ", "Ċ", "č", "ĉ", "†", "上", "😊"}, // U+0120 U+010A U+010D U+0109 U+2020 U+4E0A U+1F60A
}

func setAlphabet(seed int64) {
	keys := make([]string, 0, len(alternates))
	for k := range alternates {
		keys = append(keys, k)
	}
	sort.Strings(keys)
	for _, k := range keys {
		alts := alternates[k]
		codeToStr[k] = alts[int(uint64(seed+int64(len(k)))%uint64(len(alts)))]
		seed = seed*6364136223846793005 + 1442695040888963407
		if seed < 0 {
			seed = -seed
		}
	}
	rebuildReverse()
}

func rebuildReverse() {
	strToCode = map[string]string{}
	for k, v := range codeToStr {
		strToCode[v] = k
	}
}

func init() { rebuildReverse() }

// chars -> concrete string
func str(cs []string) string {
	var b strings.Builder
	for _, c := range cs {
		if s, ok := codeToStr[c]; ok {
			b.WriteString(s)
		} else {
			b.WriteString(c)
		}
	}
	return b.String()
}

// concrete string -> chars (runes outside the alphabet become "?U+XXXX",
// which never equals a specification character)
func codes(s string) []string {
	out := []string{}
	for len(s) > 0 {
		if strings.HasPrefix(s, xmlNsURI) {
			out = append(out, "XMLNS")
			s = s[len(xmlNsURI):]
			continue
		}
		if strings.HasPrefix(s, z400) {
			out = append(out, "Z400")
			s = s[len(z400):]
			continue
		}
		r, n := utf8.DecodeRuneInString(s)
		if r == utf8.RuneError && n <= 1 {
			out = append(out, fmt.Sprintf("?byte%02x", s[0]))
			s = s[1:]
			continue
		}
		ch := s[:n]
		s = s[n:]
		if c, ok := strToCode[ch]; ok {
			out = append(out, c)
		} else if r >= 0x21 && r < 0x7f {
			out = append(out, ch)
		} else {
			out = append(out, fmt.Sprintf("?U+%04X", r))
		}
	}
	return out
}

func eqChars(a, b []string) bool {
	if len(a) != len(b) {
		return false
	}
	for i := range a {
		if a[i] != b[i] {
			return false
		}
	}
	return true
}
