package main

import (
	"bytes"
	"encoding/json"
	"encoding/xml"
	"fmt"
	"html"
	"os"
	"os/exec"
	"path/filepath"
	"sort"
	"strings"

	"github.com/ChrisTrenkamp/xsel"
	"github.com/ChrisTrenkamp/xsel/node"
)

// C20: the freshly built command is run on materialised argument trees; which files it must
// process, how many records of which sort it owes per file, the prefix and the diagnostics come
// from spec/CliOutput.tla; the concrete record texts come from the library API (the property:
// "prints exactly the library's result").

type cliEntry struct {
	Name string `json:"name"`
	Cls  string `json:"cls"`
	In   int    `json:"in"`
}
type cliFlags struct {
	A bool   `json:"a"`
	M bool   `json:"m"`
	N bool   `json:"n"`
	R bool   `json:"r"`
	T string `json:"t"`
	E bool   `json:"e"`
	U bool   `json:"u"`
	Q string `json:"q"`
}
type cliFileSpec struct {
	Visit   bool   `json:"visit"`
	Parse   string `json:"parse"`
	Diag    bool   `json:"diag"`
	Records string `json:"records"`
	Prefix  bool   `json:"prefix"`
	Det     bool   `json:"det"`
}

func cliContent(cls, tag string) string {
	switch cls {
	case "xml", "noext", "linkxml", "stdinxml", "svg":
		return `<?xml version="1.0"?>` + "\n" + `<r><e/><a>` + tag + `-1</a><b><a x="1" n:y="2" xmlns:n="urn:n">` + tag + `-2<!--c ` + tag + `--><?p d?><i t="l1&#10;l2">x &amp; y</i></a></b><link>L</link><n:a xmlns:n="urn:n">` + tag + `-3</n:a></r>`
	case "xmlbad":
		return `<r><a>` + tag + `</r>`
	case "xmlent":
		return `<r><a>&foo;</a><a>` + tag + `-2</a></r>`
	case "json", "txtjson":
		return `{"e": "", "a": "` + tag + `-1", "b": {"a": "` + tag + `-2", "c": [1, 2]}}`
	case "html":
		return `<!DOCTYPE html><html><body><e></e><a href="u">` + tag + `-1</a><p><a>` + tag + `-2</a></p></body></html>`
	}
	return ""
}

type cliQuery struct {
	expr string
	args []string
	opts []xsel.ContextApply
}

func cliQueries(q string, variant int, m bool) cliQuery {
	switch q {
	case "bad":
		return cliQuery{expr: []string{"//a[", "//a b", "1 +", "//a]"}[variant%4]}
	case "err":
		return cliQuery{expr: "//a[. = $nosuch] | //b"}
	case "bool":
		return cliQuery{expr: "count(//a) > 0"}
	case "empty":
		return cliQuery{expr: "//nosuch"}
	case "num":
		if variant%2 == 1 {
			// the value of a -v binding reaches the query byte for byte (leading / trailing blanks included)
			return cliQuery{expr: "string-length($pad) + count(//a)", args: []string{"-v", "pad=  x y "}, opts: []xsel.ContextApply{xsel.WithVariable("pad", xsel.String("  x y "))}}
		}
		return cliQuery{expr: "count(//a)"}
	}
	variant %= 9
	if variant == 8 && !m {
		variant = 3
	}
	switch variant {
	case 8: // (only under -m) an attribute whose value holds a line feed: its record is still ONE line
		return cliQuery{expr: "//i/@t | //a/@x"}
	case 7: // the first node in document order has an EMPTY string-value: still one record (an empty one), and with -a / -m all of them
		return cliQuery{expr: "//e | //a"}
	case 6: // a reverse axis: the result arrives in reverse document order; the single record is still the FIRST node's string value
		return cliQuery{expr: "//a/ancestor::*"}
	case 4: // a prefixed variable given BEFORE the namespace mapping it needs
		return cliQuery{expr: "//a[. != $n:skip]", args: []string{"-v", "n:skip=zzz", "-s", "n=urn:n"},
			opts: []xsel.ContextApply{xsel.WithNS("n", "urn:n"), xsel.WithVariableNS("urn:n", "skip", xsel.String("zzz"))}}
	case 5: // ... and after it
		return cliQuery{expr: "//a[. != $n:skip]", args: []string{"-s", "n=urn:n", "-v", "n:skip=zzz"},
			opts: []xsel.ContextApply{xsel.WithNS("n", "urn:n"), xsel.WithVariableNS("urn:n", "skip", xsel.String("zzz"))}}
	case 1:
		return cliQuery{expr: "//*[local-name() = 'a'][. != $skip]", args: []string{"-v", "skip=zzz"}, opts: []xsel.ContextApply{xsel.WithVariable("skip", xsel.String("zzz"))}}
	case 2:
		return cliQuery{expr: "//n:a | //a", args: []string{"-s", "n=urn:n"}, opts: []xsel.ContextApply{xsel.WithNS("n", "urn:n")}}
	case 3:
		return cliQuery{expr: "//a/node() | //a/@x"}
	}
	return cliQuery{expr: "//a"}
}

func canon(c xsel.Cursor, b *strings.Builder) {
	k, sp, lo, v := nodeFields(c.Node())
	switch k {
	case "elem":
		fmt.Fprintf(b, "<{%s}%s", str(sp), str(lo))
		var as []string
		for _, a := range c.Attributes() {
			_, asp, alo, av := nodeFields(a.Node())
			as = append(as, fmt.Sprintf(" {%s}%s=%q", str(asp), str(alo), str(av)))
		}
		sort.Strings(as)
		b.WriteString(strings.Join(as, ""))
		b.WriteString(">")
		for _, ch := range c.Children() {
			canon(ch, b)
		}
		b.WriteString("</>")
	case "root":
		for _, ch := range c.Children() {
			canon(ch, b)
		}
	case "text":
		if len(v) > 0 { // (a text node without characters - the JSON mapping of "" - has no serialisation)
			fmt.Fprintf(b, "T%q", str(v))
		}
	case "comment":
		fmt.Fprintf(b, "C%q", str(v))
	case "pi":
		fmt.Fprintf(b, "P%q%q", str(lo), str(v))
	case "attr":
		fmt.Fprintf(b, "A{%s}%s=%q", str(sp), str(lo), str(v))
	case "ns":
		fmt.Fprintf(b, "N%s=%q", str(lo), str(v))
	}
}

// xmlRecordMatches: does the -m record parse back to the node?
// xmlNameable: every element / attribute / PI name in the subtree can be written as an XML name
func xmlNameable(c xsel.Cursor) bool {
	okName := func(s string) bool {
		if s == "" {
			return false
		}
		for i, r := range s {
			if r == '_' || r >= 0x80 || (r >= 'a' && r <= 'z') || (r >= 'A' && r <= 'Z') {
				continue
			}
			if i > 0 && (r == '-' || r == '.' || (r >= '0' && r <= '9')) {
				continue
			}
			return false
		}
		return true
	}
	switch n := c.Node().(type) {
	case node.Element:
		if !okName(n.Local()) {
			return false
		}
	case node.Attribute:
		if !okName(n.Local()) {
			return false
		}
	case node.ProcInst:
		if !okName(n.Target()) {
			return false
		}
	}
	for _, a := range c.Attributes() {
		if !xmlNameable(a) {
			return false
		}
	}
	for _, ch := range c.Children() {
		if !xmlNameable(ch) {
			return false
		}
	}
	return true
}

// tagsToSpaces replaces every tag of a serialisation whose names are not XML names by a NUL (so that what is left is
// character data with its references)
func tagsToSpaces(s string) string {
	var b strings.Builder
	in := false
	for _, r := range s {
		switch {
		case r == '<':
			in = true
		case r == '>' && in:
			in = false
		case !in:
			b.WriteRune(r)
		}
	}
	return b.String()
}

func xmlRecordMatches(record string, c xsel.Cursor) (bool, string) {
	if strings.Contains(record, "\n") {
		return false, "record spans several lines"
	}
	switch n := c.Node().(type) {
	case node.Attribute:
		// an attribute cannot stand alone in XML, so how it is wrapped is not constrained - but the record must still hold the
		// node: its name and its value
		if u := html.UnescapeString(record); !strings.Contains(u, n.Local()) || !strings.Contains(u, n.AttributeValue()) {
			return false, fmt.Sprintf("the record does not hold both the attribute's name %q and its value %q", n.Local(), n.AttributeValue())
		}
		return true, ""
	case node.Namespace:
		if u := html.UnescapeString(record); !strings.Contains(u, n.NamespaceValue()) {
			return false, fmt.Sprintf("the record does not hold the namespace name %q", n.NamespaceValue())
		}
		return true, ""
	}
	if !xmlNameable(c) {
		// names of the JSON mapping (#obj, #arr) and of HTML tag soup are not XML names: no XML text can parse back to
		// such a node, so only the shape of the record (one line, an element) is checked
		// ... and its character data (the record with the tags taken out and the references resolved) must be the
		// node's string-value
		if !strings.HasPrefix(record, "<") {
			return false, "record is not a serialisation at all"
		}
		if got, want := html.UnescapeString(tagsToSpaces(record)), xsel.GetCursorString(c); got != want {
			return false, fmt.Sprintf("character data %q, string-value of the node %q", got, want)
		}
		return true, ""
	}
	back, err := xsel.ReadXml(strings.NewReader("<w>" + record + "</w>"))
	if err != nil {
		return false, "record is not well-formed: " + err.Error()
	}
	var want, got strings.Builder
	canon(c, &want)
	w := back.Children()
	if len(w) != 1 {
		return false, "wrapper not found"
	}
	for _, ch := range w[0].Children() {
		canon(ch, &got)
	}
	if want.String() != got.String() {
		return false, fmt.Sprintf("re-parsed %s, node is %s", got.String(), want.String())
	}
	return true, ""
}

func cliCase(line string, rep *Report, fnd *Findings) {
	var gl struct {
		Tree  []cliEntry    `json:"tree"`
		Flags cliFlags      `json:"flags"`
		Spec  []cliFileSpec `json:"spec"`
		GDiag bool          `json:"gdiag"`
	}
	if err := json.Unmarshal([]byte(line), &gl); err != nil {
		rep.infra("bad C20 line: " + err.Error())
		return
	}
	bin := os.Getenv("XSEL_CLI")
	work := os.Getenv("XSEL_CLI_WORK")
	if bin == "" || work == "" {
		rep.infra("XSEL_CLI / XSEL_CLI_WORK not set")
		return
	}
	h := hash64([]byte(line))
	dir := filepath.Join(work, fmt.Sprintf("c%016x", h))
	os.MkdirAll(dir, 0o755)
	defer os.RemoveAll(dir)
	paths := make([]string, len(gl.Tree))
	stdin := ""
	for i, e := range gl.Tree {
		p := e.Name
		if e.In > 0 {
			p = filepath.Join(paths[e.In-1], e.Name)
		}
		paths[i] = p
		full := filepath.Join(dir, p)
		switch e.Cls {
		case "dir":
			os.MkdirAll(full, 0o755)
		case "dangling":
			os.Symlink(filepath.Join(dir, "does-not-exist"), full)
		case "missing":
			// nothing is created: the argument names a path that does not exist
		case "linkxml":
			// a symbolic link to a regular file kept outside the argument tree
			target := filepath.Join(work, fmt.Sprintf("t%016x-%d.xml", h, i))
			os.WriteFile(target, []byte(cliContent(e.Cls, strings.ToUpper(strings.ReplaceAll(e.Name, ".", "_")))), 0o644)
			defer os.Remove(target)
			os.Symlink(target, full)
		case "stdinxml":
			stdin = cliContent(e.Cls, "STDIN")
		default:
			os.WriteFile(full, []byte(cliContent(e.Cls, strings.ToUpper(strings.ReplaceAll(e.Name, ".", "_")))), 0o644)
		}
	}
	q := cliQueries(gl.Flags.Q, int(h%9), gl.Flags.M)
	args := []string{"-x", q.expr}
	args = append(args, q.args...)
	if gl.Flags.A {
		args = append(args, "-a")
	}
	if gl.Flags.M {
		args = append(args, "-m")
	}
	if gl.Flags.N {
		args = append(args, "-n")
	}
	if gl.Flags.R {
		args = append(args, "-r")
	}
	if gl.Flags.T != "" {
		args = append(args, "-t", gl.Flags.T)
	}
	if gl.Flags.E {
		args = append(args, "-e", "foo=bar")
	}
	if gl.Flags.U {
		args = append(args, "-u")
	}
	for i, e := range gl.Tree {
		if e.In == 0 {
			args = append(args, paths[i])
		}
	}
	cmd := exec.Command(bin, args...)
	cmd.Dir = dir
	var so, se bytes.Buffer
	cmd.Stdout, cmd.Stderr = &so, &se
	cmd.Stdin = strings.NewReader(stdin)
	err := cmd.Run()
	text := "xsel " + strings.Join(args, " ")
	fail := func(aspect, detail string) {
		rep.addFailure(Failure{Aspect: aspect, Fam: "C20.cli", Text: text, Detail: detail}, map[string]any{"fam": "C20.cli", "line": json.RawMessage(line), "stdout": so.String(), "stderr": se.String()})
	}
	if err != nil {
		fail("cli", "the command failed: "+err.Error()+" "+se.String())
		return
	}
	if gl.GDiag {
		// the expression is rejected before any input is touched: a diagnostic, and not one byte of output
		if so.Len() != 0 {
			fail("output", "output although the expression is not an XPath expression: "+so.String())
		}
		if se.Len() == 0 {
			fail("diag", "no diagnostic for a malformed expression")
		}
	}
	// expected stdout lines per file, from the specification (shape) and the library (texts)
	remaining := strings.Split(strings.TrimSuffix(so.String(), "\n"), "\n")
	if so.Len() == 0 {
		remaining = nil
	}
	var undetermined []string
	for i, e := range gl.Tree {
		sp := gl.Spec[i]
		if e.Cls == "dir" {
			if sp.Diag && !strings.Contains(se.String(), paths[i]) {
				fail("diag", "no diagnostic for the directory argument "+paths[i])
			}
			continue
		}
		prefix := paths[i] + ": "
		if !sp.Det {
			undetermined = append(undetermined, prefix)
			continue
		}
		diagKey := paths[i]
		if e.Cls == "stdinxml" {
			diagKey = "stdin"
		}
		if sp.Diag && !strings.Contains(se.String(), diagKey) && !(e.Cls == "stdinxml" && strings.Contains(se.String(), "file -:")) {
			fail("diag", "no diagnostic on stderr for "+paths[i]+" ("+e.Cls+")")
		}
		var want []string
		var wantNodes []xsel.Cursor
		if sp.Records != "none" {
			data, _ := os.ReadFile(filepath.Join(dir, paths[i]))
			if e.Cls == "stdinxml" {
				data = []byte(stdin)
			}
			var cur xsel.Cursor
			var rerr error
			switch sp.Parse {
			case "xml":
				cur, rerr = xsel.ReadXml(bytes.NewReader(data), func(d *xml.Decoder) {
					d.Strict = !gl.Flags.U
					if gl.Flags.E {
						d.Entity = map[string]string{"foo": "bar"}
					}
				})
			case "json":
				cur, rerr = xsel.ReadJson(bytes.NewReader(data))
			case "html":
				cur, rerr = xsel.ReadHtml(bytes.NewReader(data))
			}
			if rerr != nil {
				rep.infra("library cannot read " + paths[i] + ": " + rerr.Error())
				return
			}
			g, gerr := xsel.BuildExpr(q.expr)
			if gerr != nil {
				rep.infra(gerr.Error())
				return
			}
			res, xerr := xsel.Exec(cur, &g, q.opts...)
			if xerr != nil {
				rep.infra("library query failed: " + xerr.Error())
				return
			}
			ns, isNS := res.(xsel.NodeSet)
			switch {
			case isNS && len(ns) == 0:
			case sp.Records == "first" || !isNS:
				want = []string{res.String()}
			case sp.Records == "each":
				for _, c := range ns {
					want = append(want, xsel.GetCursorString(c))
				}
			case sp.Records == "xml":
				for _, c := range ns {
					want = append(want, "")
					wantNodes = append(wantNodes, c)
				}
			}
		}
		// take this file's lines out of stdout: they must be contiguous and in order
		pfx := ""
		if sp.Prefix {
			pfx = prefix
		}
		if len(want) == 0 {
			if sp.Prefix || !gl.Flags.N {
				for _, l := range remaining {
					if strings.HasPrefix(l, prefix) {
						fail("output", "unexpected output for "+paths[i]+": "+l)
						break
					}
				}
			}
			continue
		}
		// the block is looked for as a whole (the first records of several files may be the same line, e.g. an empty one);
		// failing that, from the first line matching its first record, so that the report names the record that differs
		recOK := func(l string, k int) bool {
			if wantNodes == nil {
				return l == pfx+want[k]
			}
			if !strings.HasPrefix(l, pfx) {
				return false
			}
			ok, _ := xmlRecordMatches(strings.TrimPrefix(l, pfx), wantNodes[k])
			return ok
		}
		start := -1
		for k := 0; k+len(want) <= len(remaining) && start < 0; k++ {
			all := true
			for j := range want {
				if !recOK(remaining[k+j], j) {
					all = false
					break
				}
			}
			if all {
				start = k
			}
		}
		for k := 0; k < len(remaining) && start < 0; k++ {
			if recOK(remaining[k], 0) {
				start = k
			}
		}
		if start < 0 || start+len(want) > len(remaining) {
			fail("output", fmt.Sprintf("records of %s not found: expected %d record(s) starting with %q; stdout: %q", paths[i], len(want), pfx+want[0], so.String()))
			continue
		}
		for k := range want {
			l := remaining[start+k]
			if wantNodes == nil {
				if l != pfx+want[k] {
					fail("output", fmt.Sprintf("record %d of %s: expected %q got %q", k+1, paths[i], pfx+want[k], l))
				}
			} else if !strings.HasPrefix(l, pfx) {
				fail("output", fmt.Sprintf("record %d of %s lacks the prefix %q: %q", k+1, paths[i], pfx, l))
			} else if ok, why := xmlRecordMatches(strings.TrimPrefix(l, pfx), wantNodes[k]); !ok {
				fail("output", fmt.Sprintf("-m record %d of %s does not parse back to the node: %s: %q", k+1, paths[i], why, l))
			}
		}
		remaining = append(remaining[:start:start], remaining[start+len(want):]...)
	}
	// whatever is left must belong to files whose outcome the specification does not determine
	for _, l := range remaining {
		ok := false
		for _, u := range undetermined {
			if strings.HasPrefix(l, u) || gl.Flags.N {
				ok = true
			}
		}
		if !ok {
			fail("output", "surplus output line: "+l)
			break
		}
	}
	rep.mu.Lock()
	rep.Cases++
	rep.Judged++
	if !rep.seen[h] {
		rep.seen[h] = true
		if so.Len() > 0 {
			rep.nontriv[h] = true
		}
	}
	if len(rep.Samples) < 3 && so.Len() > 0 && gl.Flags.M {
		rep.Samples = append(rep.Samples, map[string]any{"command": text, "stdout": so.String(), "stderr": se.String()})
	}
	rep.mu.Unlock()
}

func init() {
	otherFamilies["C20."] = cliCase
	replayOneHandlers["C20."] = func(b []byte, fnd *Findings) bool {
		var rc struct {
			Line json.RawMessage `json:"line"`
		}
		json.Unmarshal(b, &rc)
		rep := newReport("")
		cliCase(string(rc.Line), rep, fnd)
		for _, f := range rep.Failures {
			fmt.Printf("REPRODUCED %s: %s :: %s\n", f.Aspect, f.Text, f.Detail)
		}
		for _, s := range rep.Infra {
			fmt.Println("infra:", s)
		}
		return len(rep.Failures) > 0
	}
}
