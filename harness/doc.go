package main

import (
	"fmt"
	"io"
	"sync"

	"github.com/ChrisTrenkamp/xsel/node"
	"github.com/ChrisTrenkamp/xsel/store"
)

// Abstract document (spec/XDM.tla): node i+1 is Doc[i].
type Node struct {
	K  string   `json:"k"`
	P  int      `json:"p"`
	Sp []string `json:"sp"`
	Lo []string `json:"lo"`
	V  []string `json:"v"`
}
type Doc []Node

// Parser events (spec/Store.tla)
type Event struct {
	K  string   `json:"k"`
	Sp []string `json:"sp,omitempty"`
	Lo []string `json:"lo,omitempty"`
	V  []string `json:"v,omitempty"`
}

// node implementations handed to the store (a user-supplied Parser)
type hElem struct{ space, local string }

func (e hElem) Space() string { return e.space }
func (e hElem) Local() string { return e.local }

type hAttr struct{ space, local, value string }

func (a hAttr) Space() string          { return a.space }
func (a hAttr) Local() string          { return a.local }
func (a hAttr) AttributeValue() string { return a.value }

type hNs struct{ prefix, value string }

func (n hNs) Prefix() string         { return n.prefix }
func (n hNs) NamespaceValue() string { return n.value }

type hText struct{ value string }

func (t hText) CharDataValue() string { return t.value }

type hComment struct{ value string }

func (c hComment) CommentValue() string { return c.value }

type hPI struct{ target, value string }

func (p hPI) Target() string        { return p.target }
func (p hPI) ProcInstValue() string { return p.value }

// scripted parser.Parser
type scripted struct {
	evs     []Event
	i       int
	onPull  func(i int) // optional observer (stack depth sampling)
	failAt  int         // >=0: return an error at that pull
	failErr error
}

func (s *scripted) Pull() (node.Node, bool, error) {
	if s.onPull != nil {
		s.onPull(s.i)
	}
	if s.failErr != nil && s.i == s.failAt {
		return nil, false, s.failErr
	}
	if s.i >= len(s.evs) {
		return nil, false, io.EOF
	}
	e := s.evs[s.i]
	s.i++
	switch e.K {
	case "end":
		return nil, true, nil
	case "elem":
		return hElem{str(e.Sp), str(e.Lo)}, false, nil
	case "attr":
		return hAttr{str(e.Sp), str(e.Lo), str(e.V)}, false, nil
	case "ns":
		return hNs{str(e.Lo), str(e.V)}, false, nil
	case "text":
		return hText{str(e.V)}, false, nil
	case "comment":
		return hComment{str(e.V)}, false, nil
	case "pi":
		return hPI{str(e.Lo), str(e.V)}, false, nil
	}
	panic("bad event kind " + e.K)
}

// Events derives a contract-conforming event stream from an abstract
// document: a namespace node is declared on an element unless the parent
// element has the same binding in scope.
func (d Doc) Events() []Event {
	kids := d.childLists()
	var out []Event
	var walk func(n int)
	walk = func(n int) {
		nd := d[n-1]
		switch nd.K {
		case "root":
			for _, c := range kids[n].tree {
				walk(c)
			}
		case "elem":
			out = append(out, Event{K: "elem", Sp: nd.Sp, Lo: nd.Lo})
			for _, m := range kids[n].ns {
				inherited := false
				if nd.P >= 1 {
					for _, pm := range kids[nd.P].ns {
						if eqChars(d[pm-1].Lo, d[m-1].Lo) && eqChars(d[pm-1].V, d[m-1].V) {
							inherited = true
						}
					}
				}
				if !inherited {
					out = append(out, Event{K: "ns", Lo: d[m-1].Lo, V: d[m-1].V})
				}
			}
			for _, m := range kids[n].attrs {
				out = append(out, Event{K: "attr", Sp: d[m-1].Sp, Lo: d[m-1].Lo, V: d[m-1].V})
			}
			for _, c := range kids[n].tree {
				walk(c)
			}
			out = append(out, Event{K: "end"})
		case "text", "comment":
			out = append(out, Event{K: nd.K, V: nd.V})
		case "pi":
			out = append(out, Event{K: "pi", Lo: nd.Lo, V: nd.V})
		}
	}
	walk(1)
	return out
}

type lists struct{ ns, attrs, tree []int }

func (d Doc) childLists() map[int]*lists {
	m := map[int]*lists{}
	for i := range d {
		m[i+1] = &lists{}
	}
	for i, nd := range d {
		if nd.P == 0 {
			continue
		}
		l := m[nd.P]
		switch nd.K {
		case "ns":
			l.ns = append(l.ns, i+1)
		case "attr":
			l.attrs = append(l.attrs, i+1)
		default:
			l.tree = append(l.tree, i+1)
		}
	}
	return m
}

// Built is a real cursor tree together with the correspondence between
// its cursors (pointer identity) and abstract node ids.
type Built struct {
	Root   store.Cursor
	ByID   map[int]store.Cursor
	ID     map[store.Cursor]int
	Doc    Doc
	Faults []string // structural disagreements between the real tree and the abstract document

	twinOnce sync.Once
	twinB    *Built
	twinErr  error
}

func buildFromEvents(evs []Event) (store.Cursor, error) {
	return store.CreateInMemory(&scripted{evs: evs, failAt: -1})
}

// Build materialises the abstract document in the real store through a
// scripted Parser and walks both trees in parallel.
func Build(d Doc) (*Built, error) {
	root, err := buildFromEvents(d.Events())
	if err != nil {
		return nil, err
	}
	b := &Built{Root: root, ByID: map[int]store.Cursor{}, ID: map[store.Cursor]int{}, Doc: d}
	b.correlate(root)
	return b, nil
}

// twin: a second, independent tree built from the same abstract document (built once, on demand)
func (b *Built) twin(d Doc) (*Built, error) {
	b.twinOnce.Do(func() {
		if len(d) == 0 {
			d = b.Doc
		}
		b.twinB, b.twinErr = Build(d)
	})
	return b.twinB, b.twinErr
}

func (b *Built) fault(f string, a ...any) { b.Faults = append(b.Faults, fmt.Sprintf(f, a...)) }

func (b *Built) bind(id int, c store.Cursor) {
	if old, ok := b.ID[c]; ok && old != id {
		b.fault("cursor object shared by abstract nodes %d and %d", old, id)
		// keep the first binding; the second abstract node stays without a cursor of its own
		b.ByID[id] = c
		return
	}
	b.ByID[id] = c
	b.ID[c] = id
}

func (b *Built) correlate(root store.Cursor) {
	d := b.Doc
	kids := d.childLists()
	// positions: unique, and strictly increasing along the walk (an element, its namespace nodes as the tree lists
	// them, its attributes, its children); every listed node names the listing node as its parent
	lastPos, first := 0, true
	posOwner := map[int]int{}
	var walk func(id int, c store.Cursor)
	walk = func(id int, c store.Cursor) {
		b.bind(id, c)
		if o, dup := posOwner[c.Pos()]; dup && o != id {
			b.fault("nodes %d and %d share position %d", o, id, c.Pos())
		} else {
			posOwner[c.Pos()] = id
		}
		if !first && c.Pos() <= lastPos {
			b.fault("node %d: position %d is not greater than the position %d of the node before it in document order", id, c.Pos(), lastPos)
		}
		lastPos, first = c.Pos(), false
		for _, lst := range [][]store.Cursor{c.Namespaces(), c.Attributes(), c.Children()} {
			for _, x := range lst {
				if x.Parent() != c {
					b.fault("node %d: a node it lists (position %d) has another parent", id, x.Pos())
				}
			}
		}
		nd := d[id-1]
		if !nodeMatches(nd, c.Node()) {
			b.fault("node %d: real node %T%v does not match abstract %s", id, c.Node(), c.Node(), nd.K)
		}
		l := kids[id]
		// namespace nodes: matched by prefix (their relative order is not constrained)
		rns := c.Namespaces()
		if len(rns) != len(l.ns) {
			b.fault("node %d: %d namespace nodes, expected %d", id, len(rns), len(l.ns))
		}
		used := map[int]bool{}
		for _, rc := range rns {
			n, ok := rc.Node().(node.Namespace)
			if !ok {
				b.fault("node %d: non-namespace in Namespaces()", id)
				continue
			}
			found := false
			for _, m := range l.ns {
				if !used[m] && str(d[m-1].Lo) == n.Prefix() {
					used[m] = true
					found = true
					walk(m, rc)
					break
				}
			}
			if !found {
				b.fault("node %d: unexpected namespace node prefix %q", id, n.Prefix())
			}
		}
		ra := c.Attributes()
		if len(ra) != len(l.attrs) {
			b.fault("node %d: %d attributes, expected %d", id, len(ra), len(l.attrs))
		}
		for i := 0; i < len(ra) && i < len(l.attrs); i++ {
			walk(l.attrs[i], ra[i])
		}
		rc := c.Children()
		if len(rc) != len(l.tree) {
			b.fault("node %d: %d children, expected %d", id, len(rc), len(l.tree))
		}
		for i := 0; i < len(rc) && i < len(l.tree); i++ {
			walk(l.tree[i], rc[i])
		}
	}
	walk(1, root)
}

func nodeMatches(nd Node, n node.Node) bool {
	switch nd.K {
	case "root":
		switch n.(type) {
		case node.Namespace, node.Attribute, node.CharData, node.Comment, node.ProcInst:
			return false
		}
		if _, ok := n.(node.NamedNode); ok {
			return false
		}
		return true
	case "elem":
		if _, ok := n.(node.Attribute); ok {
			return false
		}
		e, ok := n.(node.Element)
		if !ok {
			return false
		}
		ne, ok := e.(node.NamedNode)
		return ok && ne.Space() == str(nd.Sp) && ne.Local() == str(nd.Lo)
	case "attr":
		a, ok := n.(node.Attribute)
		return ok && a.Space() == str(nd.Sp) && a.Local() == str(nd.Lo) && a.AttributeValue() == str(nd.V)
	case "ns":
		x, ok := n.(node.Namespace)
		return ok && x.Prefix() == str(nd.Lo) && x.NamespaceValue() == str(nd.V)
	case "text":
		x, ok := n.(node.CharData)
		return ok && x.CharDataValue() == str(nd.V)
	case "comment":
		x, ok := n.(node.Comment)
		return ok && x.CommentValue() == str(nd.V)
	case "pi":
		x, ok := n.(node.ProcInst)
		return ok && x.Target() == str(nd.Lo) && x.ProcInstValue() == str(nd.V)
	}
	return false
}
