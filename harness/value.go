package main

import (
	"encoding/json"
	"fmt"
	"math"
	"strconv"
	"strings"

	"github.com/ChrisTrenkamp/xsel"
	"github.com/ChrisTrenkamp/xsel/store"
)

// Values (spec/XPath.tla)
type Val struct {
	T   string          `json:"t"`
	V   json.RawMessage `json:"v,omitempty"`
	Why string          `json:"why,omitempty"`
	Seq []int           `json:"seq,omitempty"` // observed only: ids in returned order
	Pos []int           `json:"pos,omitempty"` // observed only: Pos() in returned order
	Ids []int           `json:"ids,omitempty"` // t = "fns": nodes of the environment's twin document (spec/XPath.tla)
}

type EnvVar struct {
	Sp  []string `json:"sp"`
	Lo  []string `json:"lo"`
	Val Val      `json:"val"`
}
type EnvFunc struct {
	Sp   []string `json:"sp"`
	Lo   []string `json:"lo"`
	Kind string   `json:"kind"`
	I    int      `json:"i,omitempty"`
	Val  *Val     `json:"val,omitempty"`
}
type NsMap map[string][]string

func (m *NsMap) UnmarshalJSON(b []byte) error {
	*m = NsMap{}
	s := strings.TrimSpace(string(b))
	if s == "[]" || s == "null" { // TLC prints the empty function as []
		return nil
	}
	var x map[string][]string
	if err := json.Unmarshal(b, &x); err != nil {
		return err
	}
	*m = x
	return nil
}

type Env struct {
	Ns    NsMap     `json:"ns"`
	Vars  []EnvVar  `json:"vars"`
	Funcs []EnvFunc `json:"funcs"`
	// Twin: another document (same shape, other values); variables of type "fns" hold nodes of a tree built from it,
	// so their Pos() numbers coincide with those of nodes of the queried tree
	Twin Doc `json:"twin,omitempty"`
}

var skipWhys = map[string]bool{"illtyped": true, "unk": true}

func mkJSON(v any) json.RawMessage { b, _ := json.Marshal(v); return b }

// abstract value -> real Result (for variable bindings / constant functions)
func (b *Built) resultOf(v Val) (xsel.Result, error) {
	switch v.T {
	case "ns":
		var ids []int
		if err := json.Unmarshal(v.V, &ids); err != nil {
			return nil, err
		}
		ns := make(xsel.NodeSet, 0, len(ids))
		for _, id := range ids {
			c, ok := b.ByID[id]
			if !ok {
				return nil, fmt.Errorf("no cursor for node %d", id)
			}
			ns = append(ns, c)
		}
		return ns, nil
	case "num":
		var n Num
		if err := json.Unmarshal(v.V, &n); err != nil {
			return nil, err
		}
		f, ok := n.Float()
		if !ok {
			return nil, fmt.Errorf("numeral %+v has no double", n)
		}
		return xsel.Number(f), nil
	case "str":
		var cs []string
		if err := json.Unmarshal(v.V, &cs); err != nil {
			return nil, err
		}
		return xsel.String(str(cs)), nil
	case "bool":
		var x bool
		if err := json.Unmarshal(v.V, &x); err != nil {
			return nil, err
		}
		return xsel.Bool(x), nil
	}
	return nil, fmt.Errorf("cannot bind value of type %q", v.T)
}

// real Result -> abstract value (observation)
func (b *Built) observe(r xsel.Result) Val {
	switch x := r.(type) {
	case xsel.NodeSet:
		ids := make([]int, len(x))
		pos := make([]int, len(x))
		for i, c := range x {
			ids[i] = b.idOf(c)
			if c != nil {
				p, ok := safePos(c)
				if !ok {
					// a cursor in the result that cannot even be asked for its position (e.g. an interface holding a nil
					// pointer): the observation is "not a node-set of this document"
					return Val{T: "badcursor"}
				}
				pos[i] = p
			}
		}
		return Val{T: "ns", Seq: ids, Pos: pos}
	case xsel.Number:
		return Val{T: "num", V: mkJSON(numOf(float64(x)))}
	case xsel.String:
		return Val{T: "str", V: mkJSON(codes(string(x)))}
	case xsel.Bool:
		return Val{T: "bool", V: mkJSON(bool(x))}
	case nil:
		return Val{T: "nil"}
	}
	return Val{T: fmt.Sprintf("?%T", r)}
}

// safePos asks a cursor handed out by the library for its position; a cursor that panics is reported, not fatal
func safePos(c store.Cursor) (p int, ok bool) {
	defer func() {
		if recover() != nil {
			p, ok = 0, false
		}
	}()
	return c.Pos(), true
}

func (b *Built) idOf(c store.Cursor) int {
	if c == nil {
		return -1
	}
	if id, ok := b.ID[c]; ok {
		return id
	}
	return 0 // a cursor that is not part of the queried document
}

func sameFloat(a, b float64) bool {
	if math.IsNaN(a) || math.IsNaN(b) {
		return math.IsNaN(a) && math.IsNaN(b)
	}
	return math.Float64bits(a) == math.Float64bits(b)
}

// valueAgrees: does the observed Result equal the specification's value?
// (node-sets: as sets; order is judged separately)
func (b *Built) valueAgrees(want Val, got xsel.Result) (bool, string) {
	switch want.T {
	case "ns":
		g, ok := got.(xsel.NodeSet)
		if !ok {
			return false, fmt.Sprintf("expected a node-set, got %T", got)
		}
		var ids []int
		json.Unmarshal(want.V, &ids)
		w := map[int]bool{}
		for _, id := range ids {
			w[id] = true
		}
		seen := map[int]bool{}
		for _, c := range g {
			id := b.idOf(c)
			if !w[id] {
				return false, fmt.Sprintf("node %d returned but not selected by the specification", id)
			}
			seen[id] = true
		}
		for id := range w {
			if !seen[id] {
				return false, fmt.Sprintf("node %d selected by the specification but not returned", id)
			}
		}
		return true, ""
	case "num":
		g, ok := got.(xsel.Number)
		if !ok {
			return false, fmt.Sprintf("expected a number, got %T", got)
		}
		var n Num
		json.Unmarshal(want.V, &n)
		f, _ := n.Float()
		if !sameFloat(f, float64(g)) {
			return false, fmt.Sprintf("expected %v (%#x) got %v (%#x)", f, math.Float64bits(f), float64(g), math.Float64bits(float64(g)))
		}
		return true, ""
	case "str":
		g, ok := got.(xsel.String)
		if !ok {
			return false, fmt.Sprintf("expected a string, got %T", got)
		}
		var cs []string
		json.Unmarshal(want.V, &cs)
		if str(cs) != string(g) {
			return false, fmt.Sprintf("expected %q got %q", str(cs), string(g))
		}
		return true, ""
	case "numstr":
		// the string of a number beyond the digit-exact range: decimal notation without exponent that
		// reads back to the same double; integers without a decimal point
		g, ok := got.(xsel.String)
		if !ok {
			return false, fmt.Sprintf("expected a string, got %T", got)
		}
		var n Num
		json.Unmarshal(want.V, &n)
		f, _ := n.Float()
		s := string(g)
		if strings.ContainsAny(s, "eE+") {
			return false, fmt.Sprintf("string(%v) = %q uses an exponent", f, s)
		}
		for _, r := range strings.TrimPrefix(s, "-") {
			if (r < '0' || r > '9') && r != '.' {
				return false, fmt.Sprintf("string(%v) = %q is not a decimal numeral", f, s)
			}
		}
		back, err := strconv.ParseFloat(s, 64)
		if err != nil || !sameFloat(back, f) {
			return false, fmt.Sprintf("string(%v) = %q does not read back to the same double", f, s)
		}
		if f == math.Trunc(f) && strings.Contains(s, ".") {
			return false, fmt.Sprintf("string(%v) = %q: an integer is printed with a decimal point", f, s)
		}
		return true, ""
	case "bool":
		g, ok := got.(xsel.Bool)
		if !ok {
			return false, fmt.Sprintf("expected a boolean, got %T", got)
		}
		var x bool
		json.Unmarshal(want.V, &x)
		if x != bool(g) {
			return false, fmt.Sprintf("expected %v got %v", x, bool(g))
		}
		return true, ""
	}
	return false, "unexpected specification value type " + want.T
}

// orderOK: C03 -- duplicate-free, only nodes of the document, strictly monotone in
// document order (ids and Pos), ascending when required
func (b *Built) orderOK(e *Expr, got xsel.Result, env *Env) (bool, string) {
	g, ok := got.(xsel.NodeSet)
	if !ok {
		return true, ""
	}
	seen := map[store.Cursor]bool{}
	ids := make([]int, len(g))
	for i, c := range g {
		if c == nil {
			return false, "nil cursor in result"
		}
		if seen[c] {
			return false, fmt.Sprintf("node %d returned twice", b.idOf(c))
		}
		seen[c] = true
		ids[i] = b.idOf(c)
		if ids[i] <= 0 {
			return false, "result contains a cursor that is not a node of the queried document"
		}
		if _, ok := safePos(c); !ok {
			return false, "result contains a cursor that panics when asked for its position"
		}
	}
	asc, dsc := true, true
	for i := 1; i < len(g); i++ {
		// namespace nodes of one element have no defined relative order: compare by Pos there
		if ids[i] > ids[i-1] != (g[i].Pos() > g[i-1].Pos()) && !(b.Doc[ids[i]-1].K == "ns" && b.Doc[ids[i-1]-1].K == "ns" && b.Doc[ids[i]-1].P == b.Doc[ids[i-1]-1].P) {
			return false, fmt.Sprintf("Pos() order disagrees with document order between nodes %d and %d", ids[i-1], ids[i])
		}
		if g[i].Pos() > g[i-1].Pos() {
			dsc = false
		} else if g[i].Pos() < g[i-1].Pos() {
			asc = false
		} else {
			return false, fmt.Sprintf("nodes %d and %d have the same Pos()", ids[i-1], ids[i])
		}
	}
	if !asc && !dsc {
		return false, fmt.Sprintf("result %v is neither ascending nor descending", ids)
	}
	if !asc && (e.Op == "union" || !(usesReverseAxis(e) || mayHandOnOrder(e, env))) {
		return false, fmt.Sprintf("result %v is not in ascending document order", ids)
	}
	return true, ""
}
