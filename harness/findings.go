package main

import (
	"encoding/json"
	"os"
)

// known_findings.json: genuine defects of the pinned tree that are recorded rather than
// repaired.  Each entry names a class implemented below (a predicate over the failing
// case); only entries with status "open" suppress anything, and only failures that fall
// in the class AND show the recorded deviant outcome.
type FindingEntry struct {
	ID       string `json:"id"`
	Property string `json:"property"`
	Class    string `json:"class"`
	Kind     string `json:"kind"` // "switch": Class names a switch of the TLA+ specification (Fx); "class": a predicate below
	What     string `json:"what"`
	Witness  any    `json:"witness"`
	Status   string `json:"status"`
}

type Findings struct {
	Entries []FindingEntry
}

func loadFindings(path string) (*Findings, error) {
	f := &Findings{}
	if path == "" {
		return f, nil
	}
	b, err := os.ReadFile(path)
	if err != nil {
		return nil, err
	}
	var doc struct {
		Findings []FindingEntry `json:"findings"`
	}
	if err := json.Unmarshal(b, &doc); err != nil {
		return nil, err
	}
	f.Entries = doc.Findings
	return f, nil
}

// class predicates: (failure, case) -> does this failure belong to the class?
var classPreds = map[string]func(f *Failure, rc *ReplayCase, b *Built) bool{}

func (fs *Findings) classify(f *Failure, rc *ReplayCase, b *Built) string {
	if fs == nil {
		return ""
	}
	for _, e := range fs.Entries {
		if e.Status != "open" {
			continue
		}
		if p, ok := classPreds[e.Class]; ok && p(f, rc, b) {
			return e.ID
		}
	}
	return ""
}

// switchID names the open switch-kind findings (the specification computed the deviant
// value with all of them on).
func (fs *Findings) switchID() string {
	id := ""
	for _, e := range fs.Entries {
		if e.Status == "open" && e.Kind == "switch" {
			if id != "" {
				id += "+"
			}
			id += e.ID
		}
	}
	if id == "" {
		id = "unlisted-switch"
	}
	return id
}
