package main

import (
	"encoding/json"
	"fmt"
	"math/rand"
	"os"
	"strings"

	"github.com/ChrisTrenkamp/xsel"
	"github.com/ChrisTrenkamp/xsel/parser"
	"github.com/ChrisTrenkamp/xsel/store"
	"golang.org/x/net/html"
)

// C17: the oracle named by the property is golang.org/x/net/html.Parse.  The DOM it builds is
// logged in abstract form together with the events pulled from parser.ReadHtml and the
// resulting cursor snapshot; Trace_Store.tla judges (HtmlEvents(dom) vs pulls, Cursor contract).

type domNode struct {
	K  string    `json:"k"`
	P  int       `json:"p"`
	Lo []string  `json:"lo"`
	At []domAttr `json:"at"`
}
type domAttr struct {
	Ns  []string `json:"ns"`
	Key []string `json:"key"`
	V   []string `json:"v"`
}

func domOf(doc *html.Node) ([]domNode, bool) {
	var out []domNode
	ok := true
	var walk func(n *html.Node, parent int)
	walk = func(n *html.Node, parent int) {
		k := ""
		switch n.Type {
		case html.DocumentNode:
			k = "doc"
		case html.DoctypeNode:
			k = "doctype"
		case html.ElementNode:
			k = "elem"
		case html.TextNode:
			k = "text"
		case html.CommentNode:
			k = "comment"
		default:
			ok = false
			return
		}
		d := domNode{K: k, P: parent, Lo: codes(n.Data), At: []domAttr{}}
		for _, a := range n.Attr {
			d.At = append(d.At, domAttr{Ns: codes(a.Namespace), Key: codes(a.Key), V: codes(a.Val)})
		}
		out = append(out, d)
		me := len(out)
		for c := n.FirstChild; c != nil; c = c.NextSibling {
			walk(c, me)
		}
	}
	walk(doc, 0)
	return out, ok
}

var soupTags = []string{"div", "p", "b", "i", "span", "table", "tr", "td", "ul", "li", "svg", "math", "br", "img", "input", "a", "h1", "select", "option", "title", "template", "svg:rect", "mi", "foreignObject", "textarea", "pre",
	// raw-text / scripting-dependent elements (their content is text or markup depending on parser options) and names with several colons
	"noscript", "script", "style", "iframe", "noembed", "noframes", "xmp", "o:p:q", "head"}
var soupAttrs = []string{`id="x"`, `class='a b'`, `xmlns="http://www.w3.org/1999/xhtml"`, `xmlns:xlink="http://www.w3.org/1999/xlink"`, `xlink:href="#a"`, `xml:lang="en"`,
	`data-x`, `x:y="1"`, `XMLNS:foo="u"`, `href="?a=1&amp;b=2"`, `disabled`, `xmlns:svg="http://www.w3.org/2000/svg"`,
	`v-on:click:once="f"`, `a:b:c`, `:x="1"`, `xlink:title:x="t"`,
	// names the tree builder spells in mixed case inside svg / math, and a non-ASCII upper-case letter
	`viewBox="0 0 1 1"`, `preserveAspectRatio="none"`, `definitionURL="u"`, `État="x"`, `gradientUnits="u"`,
	// names no XML name looks like - the tokenizer keeps them, so they are attributes of the tree
	`@click="f"`, `(blur)="g"`, `[disabled]`, `#ref`, `*ngIf="y"`, `2col`, `-x=1`, `"`, `=x`, `xml:space="preserve"`, `xml:base="b"`}
var soupText = []string{"text", " ", "a &amp; b", "&lt;x&gt;", "é中", "1 < 2", "\n  ", "]]>", "&nbsp;", "x",
	"&amp;lt;b&amp;gt;", "&amp;amp;", "&amp;nbsp;x", "el.innerHTML=\"&nbsp;&lt;\""} // decoded once they still spell a reference

func soup(rng *rand.Rand) string {
	var b strings.Builder
	b.WriteString([]string{"<!DOCTYPE html>", "<!doctype html>\n", "<!DOCTYPE html PUBLIC \"-//W3C//DTD HTML 4.01//EN\">"}[rng.Intn(3)])
	// what a charset-sniffing reader would act on (the bytes are UTF-8 and must be taken as such, as html.Parse does):
	// a meta element naming another charset, or more than 1024 ASCII bytes before the first non-ASCII character
	if rng.Intn(4) == 0 {
		// a comment between the doctype and the html element (a child of the root)
		b.WriteString("<!-- saved from url=(0014)about:internet -->")
		if rng.Intn(2) == 0 {
			b.WriteString("<html lang=en><!--in html-->")
		}
	}
	switch rng.Intn(8) {
	case 0:
		b.WriteString(`<meta charset="windows-1252">`)
	case 1:
		b.WriteString(`<meta http-equiv="Content-Type" content="text/html; charset=iso-8859-1">`)
	case 2:
		b.WriteString("<!--" + strings.Repeat("pad ", 300) + "-->")
	}
	var open []string
	n := 3 + rng.Intn(25)
	for i := 0; i < n; i++ {
		switch k := rng.Intn(12); {
		case k < 5:
			t := soupTags[rng.Intn(len(soupTags))]
			b.WriteString("<" + t)
			for a := rng.Intn(3); a > 0; a-- {
				b.WriteString(" " + soupAttrs[rng.Intn(len(soupAttrs))])
			}
			if rng.Intn(8) == 0 {
				b.WriteString("/")
			}
			b.WriteString(">")
			open = append(open, t)
		case k < 8:
			b.WriteString(soupText[rng.Intn(len(soupText))])
		case k < 9:
			// (incl. bogus comments: processing-instruction look-alikes are comments in HTML, and stay comments)
			b.WriteString([]string{"<!--c-->", "<!-- a-b -->", "<!---->", "<!--<p>-->", "<?php echo 1 ?>", "<!--?xml version=\"1.0\"?-->", "<?x?>", "<?xml-stylesheet href=\"a.css\"?>", "<!x>", "<? >"}[rng.Intn(10)])
		case k < 11 && len(open) > 0:
			j := len(open) - 1
			if rng.Intn(4) == 0 {
				j = rng.Intn(len(open)) // mis-nested close
			}
			b.WriteString("</" + open[j] + ">")
			open = append(open[:j], open[j+1:]...)
		default:
			b.WriteString([]string{"</html>", "</body>", "<html lang=en>", "<body class=x>", "<head>", "</p>", "<![CDATA[x]]>",
				// text that the tree builder foster-parents inside a template in table / row context (adjacent text nodes stay apart)
				"<template><tr>{{#if a}}<td>x</td>{{/if}}</tr></template>", "<table><template><tr>y</b>x</template>"}[rng.Intn(9)])
		}
	}
	if rng.Intn(3) == 0 {
		b.WriteString("</body></html><!-- trailing -->")
	}
	return b.String()
}

// renderBody serialises a Store-machine document as the content of <body>
func renderBody(d Doc) string {
	kids := d.childLists()
	var b strings.Builder
	var walk func(n int)
	walk = func(n int) {
		nd := d[n-1]
		switch nd.K {
		case "root":
			for _, c := range kids[n].tree {
				walk(c)
			}
		case "elem":
			b.WriteString("<" + str(nd.Lo))
			for _, a := range kids[n].attrs {
				b.WriteString(" " + str(d[a-1].Lo) + `="` + str(d[a-1].V) + `"`)
			}
			b.WriteString(">")
			for _, c := range kids[n].tree {
				walk(c)
			}
			b.WriteString("</" + str(nd.Lo) + ">")
		case "text":
			b.WriteString(str(nd.V))
		case "comment":
			b.WriteString("<!--" + str(nd.V) + "-->")
		}
	}
	walk(1)
	return "<!DOCTYPE html><html><head></head><body>" + b.String() + "</body></html>"
}

func htmlTraceLines(text string, rep *Report) {
	fail := func(aspect, detail string) {
		rep.addFailure(Failure{Aspect: aspect, Fam: "C17.html", Text: text, Detail: detail}, map[string]any{"fam": "C17.html", "text": text})
	}
	doc, err := html.Parse(strings.NewReader(text))
	if err != nil {
		return
	}
	dom, ok := domOf(doc)
	if !ok {
		return
	}
	// public entry point: must succeed (the text starts with a doctype) and never panic
	r := readSafe(func() (xsel.Cursor, error) { return xsel.ReadHtml(strings.NewReader(text)) })
	switch {
	case r.panic != nil:
		fail("panic", fmt.Sprint("ReadHtml panicked: ", r.panic))
		return
	case r.err != nil:
		fail("unexpected-error", "ReadHtml failed: "+r.err.Error())
		return
	case r.root == nil:
		fail("nil-nil", "ReadHtml returned nil, nil")
		return
	}
	p, err := parser.ReadHtml(strings.NewReader(text))
	if err != nil {
		fail("unexpected-error", "parser.ReadHtml failed: "+err.Error())
		return
	}
	lg := &pullLogger{p: p}
	rr := readSafe(func() (xsel.Cursor, error) { return store.CreateInMemory(lg) })
	if rr.panic != nil || rr.err != nil {
		fail("unexpected-error", fmt.Sprint("CreateInMemory over the HTML parser failed: ", rr.panic, rr.err))
		return
	}
	writeTrace(map[string]any{"ev": "html", "dom": dom, "pulls": nn(lg.evs), "text": text})
	writeTrace(map[string]any{"ev": "store", "evs": nn(lg.evs), "snap": snapshot(r.root)})
	rep.mu.Lock()
	rep.Cases++
	rep.Judged++
	rep.mu.Unlock()
}

func init() {
	otherFamilies["C17."] = func(line string, rep *Report, fnd *Findings) {
		var gl struct {
			Body Doc `json:"body"`
		}
		if err := json.Unmarshal([]byte(line), &gl); err != nil {
			rep.infra("bad C17 line: " + err.Error())
			return
		}
		if traceOut == nil {
			rep.infra("C17 lines need -out")
			return
		}
		htmlTraceLines(renderBody(gl.Body), rep)
	}
	commands["html-record"] = func(a *cmdArgs) int {
		if err := openTraceOut(a.out); err != nil {
			fmt.Fprintln(os.Stderr, err)
			return 2
		}
		defer closeTraceOut()
		rng := rand.New(rand.NewSource(seedFromEnv()*48271 + int64(a.sub)))
		rep := newReport(a.replays)
		texts := make([]string, a.n)
		for i := range texts {
			texts[i] = soup(rng)
		}
		// VERIF_PARSE_CONC > 1: the documents are read by that many goroutines at once (each its own document)
		parallelDo(len(texts), parseConc(), func(i int) { htmlTraceLines(texts[i], rep) })
		rep.finish()
		writeJSON(a.report, rep)
		return 0
	}
	commands["html-one"] = func(a *cmdArgs) int {
		b, err := os.ReadFile(a.rest[0])
		if err != nil {
			return 2
		}
		var rc struct {
			Text string `json:"text"`
			Line struct {
				Text string `json:"text"`
			} `json:"line"`
		}
		json.Unmarshal(b, &rc)
		if rc.Text == "" {
			rc.Text = rc.Line.Text
		}
		if err := openTraceOut(a.out); err != nil {
			return 2
		}
		defer closeTraceOut()
		rep := newReport("")
		htmlTraceLines(rc.Text, rep)
		rep.finish()
		writeJSON(a.report, rep)
		return 0
	}
	// C16 direction B: seeded random JSON values, pulls judged by Trace_Store (JsonRun)
	commands["json-record"] = func(a *cmdArgs) int {
		if err := openTraceOut(a.out); err != nil {
			fmt.Fprintln(os.Stderr, err)
			return 2
		}
		defer closeTraceOut()
		rng := rand.New(rand.NewSource(seedFromEnv()*69621 + int64(a.sub)))
		rep := newReport(a.replays)
		type jdoc struct {
			vals []JVal
			text string
		}
		docs := make([]jdoc, a.n)
		for i := range docs {
			var vals []JVal
			for k := 1 + rng.Intn(2); k > 0; k-- {
				vals = append(vals, randJSON(rng, 4))
			}
			docs[i] = jdoc{vals, renderJSONDoc(vals, rng)}
		}
		parallelDo(len(docs), parseConc(), func(i int) {
			vals, text := docs[i].vals, docs[i].text
			lg := &pullLogger{p: parser.ReadJson(strings.NewReader(text))}
			rr := readSafe(func() (xsel.Cursor, error) { return store.CreateInMemory(lg) })
			if rr.panic != nil || rr.err != nil {
				rep.addFailure(Failure{Aspect: "unexpected-error", Fam: "C16.json", Text: text, Detail: fmt.Sprint("ReadJson failed on a valid text: ", rr.panic, rr.err)},
					map[string]any{"fam": "C16.text", "text": text})
				return
			}
			writeTrace(map[string]any{"ev": "json", "vals": vals, "pulls": nn(lg.evs), "text": text})
			writeTrace(map[string]any{"ev": "store", "evs": nn(lg.evs), "snap": snapshot(rr.root)})
		})
		rep.finish()
		writeJSON(a.report, rep)
		return 0
	}
}

func randJSON(rng *rand.Rand, depth int) JVal {
	k := rng.Intn(10)
	if depth == 0 && k < 5 {
		k = 5 + rng.Intn(5)
	}
	switch {
	case k < 3:
		v := JVal{T: "obj", M: []JMem{}}
		for n := rng.Intn(4); n > 0; n-- {
			v.M = append(v.M, JMem{K: [][]string{ch("a"), ch("b"), {}, codes("a b"), ch("#obj"), {"w2"}, ch("a")}[rng.Intn(7)], V: randJSON(rng, depth-1)})
		}
		return v
	case k < 5:
		v := JVal{T: "arr", A: []JVal{}}
		for n := rng.Intn(4); n > 0; n-- {
			v.A = append(v.A, randJSON(rng, depth-1))
		}
		return v
	case k < 7:
		return JVal{T: "str", S: texts[rng.Intn(len(texts))]}
	case k < 8:
		n := []Num{{C: "fin", S: 1, N: 1, D: 1}, {C: "fin", S: -1, N: 3, D: 2}, {C: "zero", S: 1}, {C: "zero", S: -1}, {C: "fin", S: 1, N: 1234567, D: 1}, {C: "fin", S: 1, N: 5, D: 8}}[rng.Intn(6)]
		return JVal{T: "num", N: &n}
	case k < 9:
		return JVal{T: "bool", B: rng.Intn(2) == 0}
	}
	return JVal{T: "null"}
}

func (v JVal) MarshalJSON() ([]byte, error) {
	switch v.T {
	case "obj":
		return json.Marshal(map[string]any{"t": v.T, "m": nn(v.M)})
	case "arr":
		return json.Marshal(map[string]any{"t": v.T, "a": nn(v.A)})
	case "str":
		return json.Marshal(map[string]any{"t": v.T, "s": nn(v.S)})
	case "num":
		return json.Marshal(map[string]any{"t": v.T, "n": v.N})
	case "bool":
		return json.Marshal(map[string]any{"t": v.T, "b": v.B})
	}
	return json.Marshal(map[string]any{"t": "null"})
}
