package main

import (
	"encoding/json"
	"fmt"
	"math"
	"math/big"
	"math/rand"
	"strconv"
	"strings"
)

// Numerals (spec/XNum.tla)
type Num struct {
	C  string `json:"c"`
	S  int    `json:"s,omitempty"`
	N  int64  `json:"n,omitempty"`
	D  int64  `json:"d,omitempty"`
	E  int    `json:"e,omitempty"`    // c = "pow2": the double s * 2^e
	ID string `json:"id,omitempty"`   // c = "named": a boundary double known by name
	B  string `json:"bits,omitempty"` // only for c = "other"
}

func (n Num) Float() (float64, bool) {
	switch n.C {
	case "nan":
		return math.NaN(), true
	case "inf":
		return math.Inf(n.S), true
	case "zero":
		if n.S < 0 {
			return math.Copysign(0, -1), true
		}
		return 0, true
	case "fin":
		// exact when d is a power of two; otherwise the correctly rounded quotient
		return float64(n.S) * (float64(n.N) / float64(n.D)), true
	case "pow2":
		return math.Ldexp(float64(n.S), n.E), true
	case "named":
		if f, ok := namedDoubles[n.ID]; ok {
			return f, true
		}
	}
	return 0, false
}

var namedDoubles = map[string]float64{
	"halfpred": math.Float64frombits(0x3FDFFFFFFFFFFFFF), "-halfpred": -math.Float64frombits(0x3FDFFFFFFFFFFFFF),
	"odd52": 4503599627370497, "-odd52": -4503599627370497,
	"three62": 13835058055282163712, "-three62": -13835058055282163712,
}

func numOf(f float64) Num {
	for id, v := range namedDoubles {
		if v == f {
			return Num{C: "named", ID: id}
		}
	}
	switch {
	case math.IsNaN(f):
		return Num{C: "nan"}
	case math.IsInf(f, 1):
		return Num{C: "inf", S: 1}
	case math.IsInf(f, -1):
		return Num{C: "inf", S: -1}
	case f == 0:
		if math.Signbit(f) {
			return Num{C: "zero", S: -1}
		}
		return Num{C: "zero", S: 1}
	}
	if fr, ex := math.Frexp(math.Abs(f)); fr == 0.5 && (ex-1 >= 31 || ex-1 <= -21) {
		sg := 1
		if f < 0 {
			sg = -1
		}
		return Num{C: "pow2", S: sg, E: ex - 1}
	}
	r := new(big.Rat).SetFloat64(f)
	s := 1
	if r.Sign() < 0 {
		s = -1
		r.Neg(r)
	}
	if r.Num().IsInt64() && r.Denom().IsInt64() && r.Num().Int64() < 1<<30 && r.Denom().Int64() <= 1<<20 {
		return Num{C: "fin", S: s, N: r.Num().Int64(), D: r.Denom().Int64()}
	}
	// a small correctly rounded quotient p/q ?
	for q := int64(1); q <= 1000; q++ {
		p := math.Round(math.Abs(f) * float64(q))
		if p >= 1 && p < 1e6 && float64(p)/float64(q) == math.Abs(f) {
			g := gcd(int64(p), q)
			return Num{C: "fin", S: s, N: int64(p) / g, D: q / g}
		}
	}
	// a decimal numeral of up to seven fraction digits (what StrToNum reads from a short string), as the reduced fraction
	for k, q := 1, int64(10); k <= 7; k, q = k+1, q*10 {
		p := math.Round(math.Abs(f) * float64(q))
		if p >= 1 && p < 1e9 && p/float64(q) == math.Abs(f) {
			g := gcd(int64(p), q)
			return Num{C: "fin", S: s, N: int64(p) / g, D: q / g}
		}
	}
	return Num{C: "other", B: fmt.Sprintf("%#x", math.Float64bits(f))}
}

func gcd(a, b int64) int64 {
	for b != 0 {
		a, b = b, a%b
	}
	return a
}

// literal spelling of a non-negative finite numeral
func (n Num) literal() (string, bool) {
	switch n.C {
	case "zero":
		return "0", n.S > 0
	case "named":
		if f, ok := namedDoubles[n.ID]; ok && f > 0 {
			return strconv.FormatFloat(f, 'f', -1, 64), true // the shortest decimal numeral that reads back to it
		}
		return "", false
	case "pow2":
		// 2^e, e >= 0: the exact decimal integer
		if n.S < 0 || n.E < 0 {
			return "", false
		}
		return new(big.Int).Lsh(big.NewInt(1), uint(n.E)).String(), true
	case "fin":
		if n.S < 0 {
			return "", false
		}
		r := big.NewRat(n.N, n.D)
		for prec := 0; prec <= 20; prec++ {
			s := r.FloatString(prec)
			if back, ok := new(big.Rat).SetString(s); ok && back.Cmp(r) == 0 {
				return s, true
			}
		}
	}
	return "", false
}

// Expression ASTs (spec/XPath.tla)
type Expr struct {
	Op    string          `json:"op"`
	Abs   bool            `json:"abs,omitempty"`
	Steps []Step          `json:"steps,omitempty"`
	Prim  *Expr           `json:"prim,omitempty"`
	Preds []Expr          `json:"preds,omitempty"`
	L     *Expr           `json:"l,omitempty"`
	R     *Expr           `json:"r,omitempty"`
	A     *Expr           `json:"a,omitempty"`
	V     json.RawMessage `json:"v,omitempty"` // numeral of a num
	S     []string        `json:"s,omitempty"` // characters of a lit
	Pre   string          `json:"pre,omitempty"`
	Lo    []string        `json:"lo,omitempty"`
	Args  []Expr          `json:"args,omitempty"`
}
type Step struct {
	Ax    string `json:"ax,omitempty"`
	Test  *Test  `json:"test,omitempty"`
	Preds []Expr `json:"preds,omitempty"`
	Fn    *Expr  `json:"fn,omitempty"`
}
type Test struct {
	K      string   `json:"k"`
	Target []string `json:"target,omitempty"`
	Pre    string   `json:"pre,omitempty"`
	Lo     []string `json:"lo,omitempty"`
}

// Rendering styles
type Style struct {
	Abbrev     bool // use the abbreviated syntax where it exists
	FullParens bool // parenthesise every binary operand
	Space      int  // 0 single spaces between all tokens, 1 minimal, 2 random XML white space
	Rng        *rand.Rand
	Literal    string // if set: this exact text (a recorded rendering) instead of a rendering
	PadNum     int    // spelling of number literals: 0 canonical, 1 with a leading zero (010), 2 with a trailing zero (10.0, 1.50)
}

// padNumeral: another spelling of the same Number (section 3.7: Digits ('.' Digits?)? | '.' Digits)
func padNumeral(t string, mode int) string {
	if mode == 0 || t == "" || t == "." || t == ".." || strings.Trim(t, "0123456789.") != "" || strings.HasSuffix(t, ".") {
		return t
	}
	switch mode {
	case 1:
		if t[0] != '.' {
			return "0" + t
		}
		return t
	default:
		if strings.Contains(t, ".") {
			return t + "0"
		}
		return t + ".0"
	}
}

var prec = map[string]int{"or": 1, "and": 2, "eq": 3, "ne": 3, "lt": 4, "le": 4, "gt": 4, "ge": 4,
	"add": 5, "sub": 5, "mul": 6, "div": 6, "mod": 6, "neg": 7, "union": 8}
var opTok = map[string]string{"or": "or", "and": "and", "eq": "=", "ne": "!=", "lt": "<", "le": "<=", "gt": ">", "ge": ">=",
	"add": "+", "sub": "-", "mul": "*", "div": "div", "mod": "mod", "union": "|"}

func precOf(e *Expr) int {
	if p, ok := prec[e.Op]; ok {
		return p
	}
	return 9
}

type renderer struct {
	st   Style
	toks []string
	err  error
}

func (r *renderer) t(s ...string) { r.toks = append(r.toks, s...) }

func (r *renderer) paren(e *Expr, need bool) {
	if need {
		r.t("(")
		r.expr(e)
		r.t(")")
	} else {
		r.expr(e)
	}
}

func isPrimary(e *Expr) bool {
	switch e.Op {
	case "num", "lit", "var", "call", "numtext":
		return true
	}
	return false
}

func (r *renderer) expr(e *Expr) {
	switch e.Op {
	case "num":
		var n Num
		if err := json.Unmarshal(e.V, &n); err != nil {
			r.err = err
			return
		}
		s, ok := n.literal()
		if !ok {
			r.err = fmt.Errorf("numeral %+v has no literal spelling", n)
			return
		}
		r.t(s)
	case "numtext":
		r.t(str(e.S)) // a Number literal given by its spelling
	case "lit":
		s := str(e.S)
		switch {
		case !strings.Contains(s, "'"):
			r.t("'" + s + "'")
		case !strings.Contains(s, "\""):
			r.t("\"" + s + "\"")
		default:
			r.err = fmt.Errorf("literal with both quotes")
		}
	case "var":
		r.t("$" + qname(e.Pre, e.Lo))
	case "call":
		r.t(qname(e.Pre, e.Lo), "(")
		for i := range e.Args {
			if i > 0 {
				r.t(",")
			}
			r.expr(&e.Args[i])
		}
		r.t(")")
	case "neg":
		r.t("-")
		r.paren(e.A, r.st.FullParens && !isPrimary(e.A) || precOf(e.A) < 7)
	case "path":
		r.path(e.Abs, e.Steps, true)
	case "filter":
		if len(e.Preds) == 0 && len(e.Steps) == 0 {
			r.paren(e.Prim, !isPrimary(e.Prim))
			return
		}
		r.paren(e.Prim, !isPrimary(e.Prim))
		r.preds(e.Preds)
		if len(e.Steps) > 0 {
			r.path(false, e.Steps, false)
		}
	default:
		p, ok := prec[e.Op]
		if !ok {
			r.err = fmt.Errorf("unknown op %q", e.Op)
			return
		}
		lp, rp := precOf(e.L) < p, precOf(e.R) <= p
		if e.L.Op == "path" && e.L.Abs && len(e.L.Steps) == 0 {
			lp = true // "/ or x", "/ * 2" would read the operator as a name test of the path
		}
		if r.st.FullParens {
			lp, rp = !isPrimary(e.L), !isPrimary(e.R)
		}
		// a union operand must be a path expression
		r.paren(e.L, lp)
		r.t(opTok[e.Op])
		r.paren(e.R, rp)
	}
}

func qname(pre string, lo []string) string {
	if pre == "" {
		return str(lo)
	}
	return pre + ":" + str(lo)
}

func isDoS(s *Step) bool {
	return s.Fn == nil && s.Ax == "descendant-or-self" && s.Test != nil && s.Test.K == "node" && len(s.Preds) == 0
}

// first: the path starts the expression (otherwise it continues a filter expression and
// every step is preceded by a separator)
func (r *renderer) path(abs bool, steps []Step, first bool) {
	if abs && len(steps) == 0 {
		r.t("/")
		return
	}
	needSep := abs || !first
	for i := 0; i < len(steps); i++ {
		s := &steps[i]
		if r.st.Abbrev && isDoS(s) && i+1 < len(steps) && needSep {
			r.t("//")
			needSep = false
			continue
		}
		if needSep {
			r.t("/")
		}
		needSep = true
		r.step(s)
	}
	if !needSep {
		r.err = fmt.Errorf("dangling //")
	}
}

func (r *renderer) step(s *Step) {
	if s.Fn != nil {
		r.expr(s.Fn)
		return
	}
	if r.st.Abbrev && len(s.Preds) == 0 && s.Test.K == "node" {
		if s.Ax == "self" {
			r.t(".")
			return
		}
		if s.Ax == "parent" {
			r.t("..")
			return
		}
	}
	switch {
	case r.st.Abbrev && s.Ax == "child":
	case r.st.Abbrev && s.Ax == "attribute":
		r.t("@")
	default:
		r.t(s.Ax, "::")
	}
	t := s.Test
	switch t.K {
	case "node", "text", "comment":
		r.t(t.K, "(", ")")
	case "pi":
		r.t("processing-instruction", "(", ")")
	case "pit":
		r.t("processing-instruction", "(", "'"+str(t.Target)+"'", ")")
	case "any":
		r.t("*")
	case "name":
		r.t(qname(t.Pre, t.Lo))
	case "nsany":
		r.t(t.Pre + ":*")
	case "localany":
		r.t("*:" + str(t.Lo))
	default:
		r.err = fmt.Errorf("unknown test %q", t.K)
	}
	r.preds(s.Preds)
}

func (r *renderer) preds(ps []Expr) {
	for i := range ps {
		r.t("[")
		r.expr(&ps[i])
		r.t("]")
	}
}

func nameish(c byte) bool {
	return c == '_' || c == '-' || c == '.' || c == '#' || c >= '0' && c <= '9' || c >= 'a' && c <= 'z' || c >= 'A' && c <= 'Z' || c >= 0x80
}

func needsSpace(a, b string) bool {
	if a == "" || b == "" {
		return false
	}
	x, y := a[len(a)-1], b[0]
	if nameish(x) && nameish(y) {
		return true
	}
	// "a:" ... and "* :" never generated; keep operators apart from '*' to stay readable
	if (x == '*' && (nameish(y) || y == '*')) || (y == '*' && nameish(x)) {
		return true
	}
	if x == '<' && y == '=' || x == '>' && y == '=' || x == '!' && y == '=' || x == '/' && y == '/' || x == ':' && y == ':' || x == '.' && y == '.' {
		return true
	}
	if nameish(x) && y == ':' || x == ':' && nameish(y) {
		return true
	}
	return false
}

var xmlSpaces = []string{" ", "\t", "\n", "\r"}

func joinTokens(toks []string, st Style) string {
	var b strings.Builder
	for i, t := range toks {
		if i > 0 {
			switch st.Space {
			case 0:
				b.WriteString(" ")
			case 1:
				if needsSpace(toks[i-1], t) {
					b.WriteString(" ")
				}
			default:
				n := st.Rng.Intn(3)
				if n == 0 && needsSpace(toks[i-1], t) {
					n = 1
				}
				for k := 0; k < n; k++ {
					b.WriteString(xmlSpaces[st.Rng.Intn(4)])
				}
			}
		}
		b.WriteString(padNumeral(t, st.PadNum))
	}
	return b.String()
}

// Render turns an AST into XPath text.
func Render(e *Expr, st Style) (string, error) {
	if st.Literal != "" {
		return st.Literal, nil
	}
	r := &renderer{st: st}
	r.expr(e)
	if r.err != nil {
		return "", r.err
	}
	return joinTokens(r.toks, st), nil
}

// refsVar: does the expression refer to a variable anywhere (spec: RefsVar)
func refsVar(e *Expr) bool {
	if e == nil {
		return false
	}
	if e.Op == "var" {
		return true
	}
	steps := func(ss []Step) bool {
		for i := range ss {
			if ss[i].Fn != nil && refsVar(ss[i].Fn) {
				return true
			}
			for j := range ss[i].Preds {
				if refsVar(&ss[i].Preds[j]) {
					return true
				}
			}
		}
		return false
	}
	if steps(e.Steps) || refsVar(e.Prim) || refsVar(e.L) || refsVar(e.R) || refsVar(e.A) {
		return true
	}
	for i := range e.Preds {
		if refsVar(&e.Preds[i]) {
			return true
		}
	}
	for i := range e.Args {
		if refsVar(&e.Args[i]) {
			return true
		}
	}
	return false
}

// mayHandOnOrder (spec: MayHandOnOrder): the expression mentions a variable and the environment binds a node-set
// that is not in ascending document order
func mayHandOnOrder(e *Expr, env *Env) bool {
	if env == nil || !refsVar(e) {
		return false
	}
	for _, v := range env.Vars {
		if v.Val.T != "ns" {
			continue
		}
		var ids []int
		json.Unmarshal(v.Val.V, &ids)
		for i := 1; i < len(ids); i++ {
			if ids[i] < ids[i-1] {
				return true
			}
		}
	}
	return false
}

func usesReverseAxis(e *Expr) bool {
	if e == nil {
		return false
	}
	steps := func(ss []Step) bool {
		for i := range ss {
			if ss[i].Fn != nil {
				if usesReverseAxis(ss[i].Fn) {
					return true
				}
				continue
			}
			switch ss[i].Ax {
			case "ancestor", "ancestor-or-self", "preceding", "preceding-sibling":
				return true
			}
			for j := range ss[i].Preds {
				if usesReverseAxis(&ss[i].Preds[j]) {
					return true
				}
			}
		}
		return false
	}
	if steps(e.Steps) || usesReverseAxis(e.Prim) || usesReverseAxis(e.L) || usesReverseAxis(e.R) || usesReverseAxis(e.A) {
		return true
	}
	for i := range e.Preds {
		if usesReverseAxis(&e.Preds[i]) {
			return true
		}
	}
	for i := range e.Args {
		if usesReverseAxis(&e.Args[i]) {
			return true
		}
	}
	return false
}
