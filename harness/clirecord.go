package main

import (
	"bytes"
	"encoding/xml"
	"fmt"
	"math/rand"
	"os"
	"os/exec"
	"path/filepath"
	"strings"

	"github.com/ChrisTrenkamp/xsel"
)

// C20, code -> spec: random argument trees and flag sets; the command's observable behaviour per
// entry (prefixed stdout lines, diagnostics) and the shape of the library's own result are logged,
// and spec/Trace_Cli.tla judges every run against CliOutput.tla.

type cliObs struct {
	Lines int  `json:"lines"`
	Diag  bool `json:"diag"`
	Nres  int  `json:"nres"`
}

func randomCliTree(rng *rand.Rand) []cliEntry {
	fileCls := []string{"xml", "xml", "xmlbad", "xmlent", "json", "html", "txtjson", "noext", "dangling", "linkxml", "svg", "missing"}
	ext := map[string]string{"xml": ".xml", "xmlbad": ".xml", "xmlent": ".xml", "json": ".json", "html": ".html", "txtjson": ".txt", "noext": "", "dangling": ".xml", "linkxml": ".xml", "svg": ".svg", "missing": ".xml"}
	var tree []cliEntry
	n := 0
	var add func(in, depth int)
	add = func(in, depth int) {
		n++
		if depth < 3 && rng.Intn(4) == 0 {
			tree = append(tree, cliEntry{Name: fmt.Sprintf("d%d", n), Cls: "dir", In: in})
			me := len(tree)
			for k := rng.Intn(4); k > 0; k-- {
				add(me, depth+1)
			}
			return
		}
		c := fileCls[rng.Intn(len(fileCls))]
		if c == "missing" && in != 0 {
			c = "xml" // a path that does not exist only makes sense as an argument
		}
		// (file names with characters that matter to formatting verbs, shells and prefixes)
		stem := []string{"f", "f", "f", "p%20q%s", "a b", "x%d"}[rng.Intn(6)]
		tree = append(tree, cliEntry{Name: fmt.Sprintf("%s%d%s", stem, n, ext[c]), Cls: c, In: in})
	}
	for k := 1 + rng.Intn(4); k > 0; k-- {
		add(0, 0)
	}
	if rng.Intn(5) == 0 {
		tree = append(tree, cliEntry{Name: "-", Cls: "stdinxml", In: 0})
	}
	return tree
}

func init() {
	commands["cli-record"] = func(a *cmdArgs) int {
		bin, work := os.Getenv("XSEL_CLI"), os.Getenv("XSEL_CLI_WORK")
		if bin == "" || work == "" || a.out == "" {
			fmt.Fprintln(os.Stderr, "cli-record needs XSEL_CLI, XSEL_CLI_WORK and -out")
			return 2
		}
		if err := openTraceOut(a.out); err != nil {
			return 2
		}
		defer closeTraceOut()
		rng := rand.New(rand.NewSource(seedFromEnv()*7919 + int64(a.sub)))
		for k := 0; k < a.n; k++ {
			tree := randomCliTree(rng)
			fl := cliFlags{N: rng.Intn(3) == 0, R: rng.Intn(2) == 0, E: rng.Intn(3) == 0, U: rng.Intn(4) == 0,
				T: []string{"", "", "", "xml", "json", "html"}[rng.Intn(6)], Q: []string{"ns", "ns", "ns", "empty", "num", "bool", "err", "bad"}[rng.Intn(8)]}
			switch rng.Intn(3) {
			case 0:
				fl.A = true
			case 1:
				fl.M = true
			}
			dir := filepath.Join(work, fmt.Sprintf("r%d-%d", a.sub, k))
			os.MkdirAll(dir, 0o755)
			paths := make([]string, len(tree))
			stdin := ""
			var extra []string
			for i, e := range tree {
				p := e.Name
				if e.In > 0 {
					p = filepath.Join(paths[e.In-1], e.Name)
				}
				paths[i] = p
				full := filepath.Join(dir, p)
				tag := strings.ToUpper(strings.ReplaceAll(e.Name, ".", "_"))
				switch e.Cls {
				case "dir":
					os.MkdirAll(full, 0o755)
				case "dangling":
					os.Symlink(filepath.Join(dir, "does-not-exist"), full)
				case "missing":
				case "linkxml":
					target := filepath.Join(work, fmt.Sprintf("t%d-%d-%d.xml", a.sub, k, i))
					os.WriteFile(target, []byte(cliContent(e.Cls, tag)), 0o644)
					extra = append(extra, target)
					os.Symlink(target, full)
				case "stdinxml":
					stdin = cliContent(e.Cls, "STDIN")
				default:
					os.WriteFile(full, []byte(cliContent(e.Cls, tag)), 0o644)
				}
			}
			q := cliQueries(fl.Q, k, fl.M)
			args := []string{"-x", q.expr}
			args = append(args, q.args...)
			for _, f := range []struct {
				on bool
				s  []string
			}{{fl.A, []string{"-a"}}, {fl.M, []string{"-m"}}, {fl.N, []string{"-n"}}, {fl.R, []string{"-r"}}, {fl.T != "", []string{"-t", fl.T}}, {fl.E, []string{"-e", "foo=bar"}}, {fl.U, []string{"-u"}}} {
				if f.on {
					args = append(args, f.s...)
				}
			}
			for i, e := range tree {
				if e.In == 0 {
					args = append(args, paths[i])
				}
			}
			cmd := exec.Command(bin, args...)
			cmd.Dir = dir
			var so, se bytes.Buffer
			cmd.Stdout, cmd.Stderr, cmd.Stdin = &so, &se, strings.NewReader(stdin)
			runErr := cmd.Run()
			lines := strings.Split(strings.TrimSuffix(so.String(), "\n"), "\n")
			if so.Len() == 0 {
				lines = nil
			}
			obs := make([]cliObs, len(tree))
			for i, e := range tree {
				if e.Cls == "dir" {
					obs[i].Diag = strings.Contains(se.String(), paths[i])
					continue
				}
				if fl.N {
					obs[i].Lines = -1
				} else {
					for _, l := range lines {
						if strings.HasPrefix(l, paths[i]+": ") {
							obs[i].Lines++
						}
					}
				}
				key := paths[i]
				if e.Cls == "stdinxml" {
					key = "stdin"
					obs[i].Lines = -1
				}
				obs[i].Diag = strings.Contains(se.String(), key) || (e.Cls == "stdinxml" && strings.Contains(se.String(), "file -:"))
				// the shape of the library's own result for this file under the type the command would use
				data := []byte(stdin)
				if e.Cls != "stdinxml" {
					data, _ = os.ReadFile(filepath.Join(dir, paths[i]))
				}
				pt := fl.T
				if pt == "" {
					pt = map[string]string{"xml": "xml", "xmlbad": "xml", "xmlent": "xml", "dangling": "xml", "missing": "xml", "linkxml": "xml", "svg": "xml", "json": "json", "html": "html"}[e.Cls]
				}
				var cur xsel.Cursor
				var rerr error = fmt.Errorf("no type")
				switch pt {
				case "xml":
					cur, rerr = xsel.ReadXml(bytes.NewReader(data), func(d *xml.Decoder) {
						d.Strict = !fl.U
						if fl.E {
							d.Entity = map[string]string{"foo": "bar"}
						}
					})
				case "json":
					cur, rerr = xsel.ReadJson(bytes.NewReader(data))
				case "html":
					cur, rerr = xsel.ReadHtml(bytes.NewReader(data))
				}
				if rerr == nil && data != nil {
					if g, err := xsel.BuildExpr(q.expr); err == nil {
						if res, err := xsel.Exec(cur, &g, q.opts...); err == nil {
							if ns, ok := res.(xsel.NodeSet); ok {
								obs[i].Nres = len(ns)
							} else {
								obs[i].Nres = 1
							}
						}
					}
				}
			}
			ev := map[string]any{"ev": "cli", "tree": tree, "flags": fl, "obs": obs, "total": len(lines), "stderr": se.Len() > 0, "cmd": "xsel " + strings.Join(args, " ")}
			if runErr != nil {
				ev["exit"] = runErr.Error()
			}
			writeTrace(ev)
			os.RemoveAll(dir)
			for _, t := range extra {
				os.Remove(t)
			}
		}
		return 0
	}
}
