package main

import (
	"encoding/json"
	"flag"
	"fmt"
	"os"
	"strconv"
)

func seedFromEnv() int64 {
	if s := os.Getenv("VERIF_SEED"); s != "" {
		if v, err := strconv.ParseInt(s, 10, 64); err == nil {
			return v
		}
	}
	return 1
}

func writeJSON(path string, v any) {
	b, _ := json.MarshalIndent(v, "", " ")
	if path == "" || path == "-" {
		os.Stdout.Write(append(b, '\n'))
		return
	}
	os.WriteFile(path, b, 0o644)
}

func main() {
	if len(os.Args) < 2 {
		fmt.Fprintln(os.Stderr, "usage: harness <replay|replay-one|record|...> [flags]")
		os.Exit(2)
	}
	cmd := os.Args[1]
	fs := flag.NewFlagSet(cmd, flag.ExitOnError)
	report := fs.String("report", "-", "report file")
	replays := fs.String("replays", "", "directory for replay files")
	findings := fs.String("findings", "", "known_findings.json")
	workers := fs.Int("workers", 16, "worker goroutines")
	out := fs.String("out", "", "output file")
	n := fs.Int("n", 100, "amount of work")
	fam := fs.String("fam", "", "family / driver name")
	sub := fs.Int("sub", 0, "sub-run number (varies the random stream)")
	fs.Parse(os.Args[2:])
	setAlphabet(seedFromEnv())
	fnd, err := loadFindings(*findings)
	if err != nil {
		fmt.Fprintln(os.Stderr, "findings:", err)
		os.Exit(2)
	}
	switch cmd {
	case "replay":
		if *out != "" {
			if err := openTraceOut(*out); err != nil {
				fmt.Fprintln(os.Stderr, err)
				os.Exit(2)
			}
			defer closeTraceOut()
		}
		rep := newReport(*replays)
		if err := replayStream(os.Stdin, rep, fnd, *workers); err != nil {
			fmt.Fprintln(os.Stderr, err)
			os.Exit(2)
		}
		writeJSON(*report, rep)
		closeTraceOut()
	case "replay-one":
		os.Exit(replayOne(fs.Args(), fnd))
	default:
		if fn, ok := commands[cmd]; ok {
			os.Exit(fn(&cmdArgs{report: *report, replays: *replays, fnd: fnd, workers: *workers, out: *out, n: *n, fam: *fam, sub: *sub, rest: fs.Args()}))
		}
		fmt.Fprintln(os.Stderr, "unknown command", cmd)
		os.Exit(2)
	}
}

type cmdArgs struct {
	report, replays, out, fam string
	fnd                       *Findings
	workers, n, sub           int
	rest                      []string
}

var commands = map[string]func(a *cmdArgs) int{}

// replayOne re-executes one replay file; exit 1 if the failure reproduces.
func replayOne(paths []string, fnd *Findings) int {
	status := 0
	for _, p := range paths {
		b, err := os.ReadFile(p)
		if err != nil {
			fmt.Fprintln(os.Stderr, err)
			return 2
		}
		var probe struct {
			Fam string `json:"fam"`
		}
		json.Unmarshal(b, &probe)
		if fn := replayOneOther(probe.Fam); fn != nil {
			if fn(b, fnd) {
				status = 1
			}
			continue
		}
		var rc ReplayCase
		if err := json.Unmarshal(b, &rc); err != nil {
			fmt.Fprintln(os.Stderr, err)
			return 2
		}
		bt, err := Build(rc.Doc)
		if err != nil {
			fmt.Println("REPRODUCED tree:", err)
			status = 1
			continue
		}
		for _, ft := range bt.Faults {
			fmt.Println("REPRODUCED tree:", ft)
			status = 1
		}
		if rc.E != nil {
			env := rc.Env
			if env == nil {
				env = &Env{}
			}
			styles := baseStyles
			if rc.Text != "" {
				styles = append([]Style{{Literal: rc.Text}}, baseStyles...)
			}
			fails, _, _ := bt.judgeExec(rc.Fam, env, rc.Ctx, rc.E, rc.R, styles)
			for _, f := range fails {
				fmt.Printf("REPRODUCED %s: %s :: %s\n", f.Aspect, f.Text, f.Detail)
				status = 1
			}
		}
		if status == 0 {
			fmt.Println("not reproduced:", p)
		}
	}
	return status
}

var replayOneHandlers = map[string]func(b []byte, fnd *Findings) bool{}

func replayOneOther(fam string) func(b []byte, fnd *Findings) bool {
	for prefix, fn := range replayOneHandlers {
		if len(fam) >= len(prefix) && fam[:len(prefix)] == prefix {
			return fn
		}
	}
	return nil
}
