package main

import (
	"bufio"
	"encoding/json"
	"fmt"
	"math/rand"
	"os"

	"github.com/ChrisTrenkamp/xsel"
)

// Direction B: drive the real library with seeded random sessions and record one
// NDJSON event per public call at its return; a TLA+ trace specification is the judge.

func obsJSON(b *Built, o outcome) map[string]any {
	switch {
	case o.panic != nil:
		return map[string]any{"t": "panic", "why": fmt.Sprint(o.panic)}
	case o.err != nil:
		return map[string]any{"t": "err", "why": firstLine(o.err.Error())}
	case o.res == nil:
		return map[string]any{"t": "nil"}
	}
	v := b.observe(o.res)
	switch v.T {
	case "ns":
		seq, pos := v.Seq, v.Pos
		if seq == nil {
			seq, pos = []int{}, []int{}
		}
		return map[string]any{"t": "ns", "seq": seq, "pos": pos}
	}
	if v.V == nil {
		return map[string]any{"t": v.T} // (JSON null is not a TLA+ value)
	}
	return map[string]any{"t": v.T, "v": v.V}
}

func traceEnv(env *Env) map[string]any {
	ns := map[string][]string{}
	for k, v := range env.Ns {
		ns[k] = v
	}
	vars := env.Vars
	if vars == nil {
		vars = []EnvVar{}
	}
	funcs := env.Funcs
	if funcs == nil {
		funcs = []EnvFunc{}
	}
	return map[string]any{"ns": ns, "vars": vars, "funcs": funcs}
}

func init() {
	commands["record"] = func(a *cmdArgs) int {
		seed := seedFromEnv()
		rng := rand.New(rand.NewSource(seed*7919 + 13 + int64(a.sub)*104729))
		f, err := os.Create(a.out)
		if err != nil {
			fmt.Fprintln(os.Stderr, err)
			return 2
		}
		defer f.Close()
		w := bufio.NewWriterSize(f, 1<<20)
		defer w.Flush()
		enc := json.NewEncoder(w)
		g := &Gen{r: rng}
		env := &Env{Ns: NsMap{"p": uriU1, "q": uriU2}}
		if a.fam == "bindings" {
			one := mkJSON(Num{C: "fin", S: 1, N: 3, D: 2})
			env.Vars = []EnvVar{{Sp: []string{}, Lo: ch("n"), Val: Val{T: "num", V: one}}, {Sp: uriU1, Lo: ch("s"), Val: Val{T: "str", V: mkJSON(ch("a b"))}},
				{Sp: []string{}, Lo: ch("b"), Val: Val{T: "bool", V: mkJSON(true)}}}
			env.Funcs = []EnvFunc{{Sp: uriU1, Lo: ch("f"), Kind: "arg", I: 2}, {Sp: []string{}, Lo: ch("here"), Kind: "ctxnode"},
				{Sp: uriU2, Lo: ch("pos"), Kind: "ctxpos"}, {Sp: []string{}, Lo: ch("string"), Kind: "nargs"}}
			g.numVars = []string{"n"}
			g.boundFns = true
		}
		events, h := 0, 0
		perDoc := 25
		maxNodes := 24
		for events < a.n {
			h++
			d := g.Doc(6 + rng.Intn(maxNodes))
			b, err := Build(d)
			if err != nil || len(b.Faults) > 0 {
				// the store itself misbehaves: that is C10's business; record what we can
				// (a structural fault of the tree is itself an observation about the real code: the trace
				// specification rejects the event; queries on a tree that is not the document would only cascade)
				ev := treeFaultEvent(d, h, b, err)
				enc.Encode(ev)
				events++
				continue
			}
			enc.Encode(map[string]any{"ev": "doc", "h": h, "doc": d})
			st, _ := b.settings(env, nil)
			for i := 0; i < perDoc && events < a.n; i++ {
				var e *Expr
				k := rng.Intn(10)
				if a.fam == "values" {
					k = 6 + rng.Intn(4)
				}
				switch {
				case k < 6 || a.fam == "paths" || a.fam == "preds":
					e = g.NodeSet(2, true)
				case k < 7:
					e = g.Num(2)
				case k < 8:
					e = g.Str(2)
				default:
					e = g.Bool(2)
				}
				text, err := Render(e, Style{Abbrev: rng.Intn(2) == 0, Space: rng.Intn(3), FullParens: rng.Intn(4) == 0, Rng: rng})
				if err != nil {
					continue
				}
				ctx := 1 + rng.Intn(len(d))
				if rng.Intn(3) == 0 {
					ctx = 1
				}
				c := compile(text)
				var o outcome
				if c.err != nil {
					o = outcome{err: fmt.Errorf("BuildExpr: %v", c.err)}
				} else {
					o = execSafe(b.ByID[ctx], &c.g, st)
				}
				line := map[string]any{"ev": "exec", "h": h, "ctx": ctx, "env": traceEnv(env), "e": e, "text": text, "res": obsJSON(b, o)}
				if c.err == nil && o.err == nil && o.panic == nil && o.res != nil {
					// the convenience wrappers of the public API on the same call
					func() {
						defer func() { recover() }()
						as, e1 := xsel.ExecAsString(b.ByID[ctx], &c.g, st...)
						an, e2 := xsel.ExecAsNumber(b.ByID[ctx], &c.g, st...)
						_, e3 := xsel.ExecAsNodeset(b.ByID[ctx], &c.g, st...)
						if e1 == nil && e2 == nil {
							line["api"] = map[string]any{"s": codes(as), "n": numOf(an), "ns": e3 == nil}
						}
					}()
				}
				enc.Encode(line)
				events++
			}
		}
		return 0
	}
}

var _ = xsel.Exec
