package main

import (
	"encoding/json"
	"fmt"
	"math/rand"
	"strings"

	"github.com/ChrisTrenkamp/xsel"
	"github.com/ChrisTrenkamp/xsel/parser"
	"github.com/ChrisTrenkamp/xsel/store"
)

// C09: markup items (spec/XmlAdapter.tla) are serialised in several ways - prefix spelling,
// CDATA / references / plain text, empty-element tags, encodings - and read by ReadXml.

type xmlDecl struct {
	Pre []string `json:"pre"`
	Uri []string `json:"uri"`
}
type xmlAttr struct {
	Pre []string `json:"pre"`
	Lo  []string `json:"lo"`
	V   []string `json:"v"`
}
type xmlItem struct {
	K     string    `json:"k"`
	Pre   []string  `json:"pre"`
	Lo    []string  `json:"lo"`
	Decls []xmlDecl `json:"decls"`
	Attrs []xmlAttr `json:"attrs"`
	V     []string  `json:"v"`
	How   string    `json:"how"`
}

type xmlStyle struct {
	rename   map[string]string // prefix -> prefix
	encoding string            // "", "UTF-8", "ISO-8859-1", "windows-1252", "US-ASCII"
	decl     bool
	rng      *rand.Rand
	order    int // within a start tag: 0 namespace declarations first, 1 attributes first, 2 interleaved at random
}

func (st *xmlStyle) pre(p []string) string {
	s := str(p)
	if r, ok := st.rename[s]; ok {
		return r
	}
	return s
}

func (st *xmlStyle) qname(p, lo []string) string {
	if len(p) == 0 {
		return str(lo)
	}
	return st.pre(p) + ":" + str(lo)
}

func escText(s string, attr bool) string {
	var b strings.Builder
	for _, r := range s {
		switch {
		case r == '&':
			b.WriteString("&amp;")
		case r == '<':
			b.WriteString("&lt;")
		case r == '>':
			b.WriteString("&gt;")
		case r == '"' && attr:
			b.WriteString("&quot;")
		case r == '\r' || (attr && (r == '\n' || r == '\t')):
			fmt.Fprintf(&b, "&#%d;", r)
		default:
			b.WriteRune(r)
		}
	}
	return b.String()
}

func refText(s string, rng *rand.Rand) string {
	var b strings.Builder
	for _, r := range s {
		switch {
		case r == '&' && rng.Intn(2) == 0:
			b.WriteString("&amp;")
		case r == '<' && rng.Intn(2) == 0:
			b.WriteString("&lt;")
		case rng.Intn(2) == 0:
			fmt.Fprintf(&b, "&#x%X;", r)
		default:
			fmt.Fprintf(&b, "&#%d;", r)
		}
	}
	return b.String()
}

func renderXML(items []xmlItem, st *xmlStyle) string {
	var b strings.Builder
	if st.decl {
		enc := ""
		if st.encoding != "" {
			enc = ` encoding="` + st.encoding + `"`
		}
		b.WriteString(`<?xml version="1.0"` + enc + `?>`)
		if st.rng.Intn(2) == 0 {
			b.WriteString("\n")
		}
	}
	var open []string
	for i := 0; i < len(items); i++ {
		it := items[i]
		switch it.K {
		case "start":
			name := st.qname(it.Pre, it.Lo)
			b.WriteString("<" + name)
			// namespace declarations are attributes of the tag and may stand anywhere among the others; the data
			// model does not care (the relative order of declarations and that of attributes is kept)
			var ds, as []string
			for _, d := range it.Decls {
				if len(d.Pre) == 0 {
					ds = append(ds, ` xmlns="`+escText(str(d.Uri), true)+`"`)
				} else {
					ds = append(ds, ` xmlns:`+st.pre(d.Pre)+`="`+escText(str(d.Uri), true)+`"`)
				}
			}
			for _, a := range it.Attrs {
				q := "\""
				val := escText(str(a.V), true)
				if st.rng.Intn(3) == 0 && !strings.Contains(str(a.V), "'") {
					q = "'"
					val = strings.ReplaceAll(val, "&quot;", "\"")
				}
				as = append(as, " "+st.qname(a.Pre, a.Lo)+"="+q+val+q)
			}
			for len(ds) > 0 || len(as) > 0 {
				takeDecl := len(as) == 0 || (len(ds) > 0 && (st.order == 0 || (st.order == 2 && st.rng.Intn(2) == 0)))
				if takeDecl {
					b.WriteString(ds[0])
					ds = ds[1:]
				} else {
					b.WriteString(as[0])
					as = as[1:]
				}
			}
			if i+1 < len(items) && items[i+1].K == "end" && st.rng.Intn(2) == 0 {
				b.WriteString("/>")
				i++
				continue
			}
			b.WriteString(">")
			open = append(open, name)
		case "end":
			b.WriteString("</" + open[len(open)-1])
			if st.rng.Intn(4) == 0 {
				b.WriteString(" ")
			}
			b.WriteString(">")
			open = open[:len(open)-1]
		case "chars":
			s := str(it.V)
			switch it.How {
			case "split3":
				// three pieces of character data in a row: text, a CDATA section, text
				cs := it.V
				k1, k2 := len(cs)/3, 2*len(cs)/3
				if k1 == 0 {
					k1, k2 = 1, 2
				}
				if len(cs) < 3 {
					b.WriteString(escText(s, false))
					break
				}
				b.WriteString(escText(str(cs[:k1]), false) + "<![CDATA[" + str(cs[k1:k2]) + "]]>" + escText(str(cs[k2:]), false))
			case "cdata":
				b.WriteString("<![CDATA[" + strings.ReplaceAll(s, "]]>", "]]]]><![CDATA[>") + "]]>")
			case "ref":
				b.WriteString(refText(s, st.rng))
			default:
				b.WriteString(escText(s, false))
			}
		case "comment":
			b.WriteString("<!--" + str(it.V) + "-->")
		case "pi":
			b.WriteString("<?" + str(it.Lo) + " " + str(it.V) + "?>")
		}
	}
	return b.String()
}

// encode transcodes UTF-8 text into the declared 8-bit encoding; characters it cannot
// represent are written as character references (they only occur in text and attribute values)
// encodings whose bytes A0..FF are the code points U+00A0..U+00FF; for every other declared encoding (all of them ASCII
// compatible) only ASCII bytes are written and the rest goes into character references
var latin1Family = map[string]bool{"ISO-8859-1": true, "windows-1252": true, "iso-8859-1": true, "latin1": true}

func encodeXML(text, enc string) ([]byte, bool) {
	if enc == "" || enc == "UTF-8" {
		return []byte(text), true
	}
	var out []byte
	for _, r := range text {
		switch {
		case r < 0x80:
			out = append(out, byte(r))
		case latin1Family[enc] && r >= 0xA0 && r <= 0xFF:
			out = append(out, byte(r))
		default:
			out = append(out, []byte(fmt.Sprintf("&#x%X;", r))...)
		}
	}
	return out, true
}

func renamed(evs []Event, d Doc, ren map[string]string) ([]Event, Doc) {
	if len(ren) == 0 {
		return evs, d
	}
	e2 := make([]Event, len(evs))
	copy(e2, evs)
	for i := range e2 {
		if e2[i].K == "ns" {
			if r, ok := ren[str(e2[i].Lo)]; ok {
				e2[i].Lo = codes(r)
			}
		}
	}
	d2 := make(Doc, len(d))
	copy(d2, d)
	for i := range d2 {
		if d2[i].K == "ns" {
			if r, ok := ren[str(d2[i].Lo)]; ok {
				d2[i].Lo = codes(r)
			}
		}
	}
	return e2, d2
}

func readXMLBytes(b []byte) readResult {
	return readSafe(func() (xsel.Cursor, error) { return xsel.ReadXml(strings.NewReader(string(b))) })
}

func xmlCase(line string, rep *Report, fnd *Findings) {
	var gl struct {
		Items []xmlItem `json:"items"`
		Evs   []Event   `json:"evs"`
		Doc   Doc       `json:"doc"`
	}
	if err := json.Unmarshal([]byte(line), &gl); err != nil {
		rep.infra("bad C09 line: " + err.Error())
		return
	}
	seed := int64(hash64([]byte(line))>>1) ^ seedFromEnv()
	fail := func(aspect, text, detail string) {
		rep.addFailure(Failure{Aspect: aspect, Fam: "C09.xml", Text: text, Detail: detail}, map[string]any{"fam": "C09.xml", "text": text, "line": json.RawMessage(line)})
	}
	styles := []*xmlStyle{
		{rng: rand.New(rand.NewSource(seed))},
		{rng: rand.New(rand.NewSource(seed + 1)), decl: true, encoding: "UTF-8", rename: map[string]string{"p": "q", "q": "p"}, order: 1},
		{rng: rand.New(rand.NewSource(seed + 2)), decl: true, encoding: []string{"ISO-8859-1", "windows-1252", "US-ASCII", "iso-8859-1", "latin1", "TIS-620", "windows-874", "KOI8-R", "IBM866", "ISO-8859-5", "EUC-KR", "macintosh", "ISO-8859-11"}[int(seed%13+13)%13], rename: map[string]string{"p": "ns-1", "q": "_x.y"}},
		{rng: rand.New(rand.NewSource(seed + 3)), decl: true, order: 2},
	}
	var plain string
	for si, st := range styles {
		text := renderXML(gl.Items, st)
		if si == 0 {
			plain = text
		}
		raw, _ := encodeXML(text, st.encoding)
		evs, doc := renamed(gl.Evs, gl.Doc, st.rename)
		r := readXMLBytes(raw)
		switch {
		case r.panic != nil:
			fail("panic", text, fmt.Sprint("ReadXml panicked: ", r.panic))
		case r.err != nil:
			fail("unexpected-error", text, "ReadXml failed on a well-formed document: "+r.err.Error())
		case r.root == nil:
			fail("nil-nil", text, "ReadXml returned nil, nil")
		default:
			b := correlateCursor(r.root, doc)
			for _, ft := range b.Faults {
				fail("tree", text, ft)
			}
		}
		lg := &pullLogger{p: parser.ReadXml(strings.NewReader(string(raw)))}
		rr := readSafe(func() (xsel.Cursor, error) { return store.CreateInMemory(lg) })
		if rr.panic == nil && rr.err == nil {
			if ok, why := sameEvents(evs, lg.evs); !ok {
				fail("events", text, "Pull stream differs from XmlEvents: "+why)
			}
			if traceOut != nil {
				writeTrace(map[string]any{"ev": "store", "evs": nn(lg.evs), "snap": snapshot(rr.root)})
			}
		}
		rep.mu.Lock()
		rep.Cases++
		rep.Judged++
		rep.mu.Unlock()
	}
	// malformed variants of the plain serialisation must be reported as errors
	bad := []string{}
	if k := strings.LastIndex(plain, "</"); k >= 0 {
		bad = append(bad, plain[:k])                                                    // unclosed element
		bad = append(bad, plain[:k]+"</zz"+plain[k+2+strings.Index(plain[k+2:], ">"):]) // mismatched end tag
	}
	if k := strings.Index(plain, ">"); k >= 0 {
		bad = append(bad, plain[:k+1]+"&undefined;"+plain[k+1:]) // undefined entity
		bad = append(bad, plain[:k+1]+"&nbsp;"+plain[k+1:])      // ... also when HTML happens to define the name
		bad = append(bad, plain[:k+1]+"caf&eacute;"+plain[k+1:])
		bad = append(bad, plain[:k+1]+"\x01"+plain[k+1:])  // invalid character
		bad = append(bad, plain[:k+1]+"a & b"+plain[k+1:]) // bare ampersand
		bad = append(bad, plain[:k+1]+"<"+plain[k+1:])     // stray <
	}
	bad = append(bad, `<?xml version="1.0" encoding="UTF-8"?>`+strings.Replace(plain, ">", ">\xff\xfe", 1)) // invalid UTF-8
	bad = append(bad, `<?xml version="1.0" encoding="no-such-charset"?>`+plain)                             // unknown encoding
	bad = append(bad, plain+plain)                                                                          // two document elements are tolerated by the decoder? (only checked for no panic)
	for i, text := range bad {
		r := readXMLBytes([]byte(text))
		rep.mu.Lock()
		rep.Cases++
		rep.Judged++
		rep.mu.Unlock()
		if r.panic != nil {
			fail("panic", text, fmt.Sprint("ReadXml panicked: ", r.panic))
		} else if r.err == nil && i != len(bad)-1 {
			fail("error-expected", text, "malformed XML accepted with a nil error")
		}
	}
	h := hash64([]byte(line))
	rep.mu.Lock()
	if !rep.seen[h] {
		rep.seen[h] = true
		if len(gl.Evs) > 3 {
			rep.nontriv[h] = true
		}
	}
	if len(rep.Samples) < 3 && len(gl.Items) > 3 {
		rep.Samples = append(rep.Samples, map[string]any{"xml": renderXML(gl.Items, styles[1]), "expected_events": gl.Evs})
	}
	rep.mu.Unlock()
}

func init() {
	otherFamilies["C09."] = xmlCase
	replayOneHandlers["C09."] = func(b []byte, fnd *Findings) bool {
		var rc struct {
			Line json.RawMessage `json:"line"`
		}
		json.Unmarshal(b, &rc)
		rep := newReport("")
		xmlCase(string(rc.Line), rep, fnd)
		for _, f := range rep.Failures {
			fmt.Printf("REPRODUCED %s: %q :: %s\n", f.Aspect, f.Text, f.Detail)
		}
		return len(rep.Failures) > 0
	}
}
