package main

import (
	"encoding/json"
	"fmt"
	"hash/fnv"
	"sync"

	"github.com/ChrisTrenkamp/xsel"
)

// A Failure is one disagreement between the real code and the specification.
type Failure struct {
	Aspect  string `json:"aspect"` // value | order | error-expected | unexpected-error | panic | build | tree | ...
	Finding string `json:"finding,omitempty"`
	Fam     string `json:"fam"`
	Text    string `json:"text,omitempty"`
	Ctx     int    `json:"ctx,omitempty"`
	Detail  string `json:"detail"`
	Replay  string `json:"replay,omitempty"`
	payload any
}

type compiled struct {
	g   xsel.Grammar
	err error
}

var (
	compMu    sync.Mutex
	compCache = map[string]*compiled{}
)

func compile(text string) *compiled {
	compMu.Lock()
	c, ok := compCache[text]
	compMu.Unlock()
	if ok {
		return c
	}
	c = &compiled{}
	func() {
		defer func() {
			if r := recover(); r != nil {
				c.err = fmt.Errorf("PANIC in BuildExpr: %v", r)
			}
		}()
		c.g, c.err = xsel.BuildExpr(text)
	}()
	compMu.Lock()
	compCache[text] = c
	compMu.Unlock()
	return c
}

type callRec struct {
	Fn   int   `json:"fn"`
	Args []Val `json:"args"`
	Res  Val   `json:"ctxres"`
	Pos  int   `json:"ctxpos"`
}

// settings turns an abstract environment into real ContextApply options.
// calls (optional) receives one record per user-function invocation.
// boundNS: a node-set the caller bound to a variable - the slice handed over, and a copy of what it held then
type boundNS struct {
	name string
	held xsel.NodeSet
	was  xsel.NodeSet
}

func (b *Built) settings(env *Env, calls *[]callRec, bound ...*[]boundNS) ([]xsel.ContextApply, error) {
	var out []xsel.ContextApply
	for p, u := range env.Ns {
		out = append(out, xsel.WithNS(p, str(u)))
	}
	for _, v := range env.Vars {
		var r xsel.Result
		var err error
		if v.Val.T == "fns" {
			// nodes of another document: a tree built from the environment's twin document
			twin, terr := b.twin(env.Twin)
			if terr != nil {
				return nil, terr
			}
			ns := make(xsel.NodeSet, 0, len(v.Val.Ids))
			for _, id := range v.Val.Ids {
				c, ok := twin.ByID[id]
				if !ok {
					return nil, fmt.Errorf("no node %d in the twin document", id)
				}
				ns = append(ns, c)
			}
			r = ns
		} else {
			r, err = b.resultOf(v.Val)
		}
		if err != nil {
			return nil, err
		}
		if ns, ok := r.(xsel.NodeSet); ok && len(bound) > 0 && bound[0] != nil {
			*bound[0] = append(*bound[0], boundNS{name: str(v.Lo), held: ns, was: append(xsel.NodeSet{}, ns...)})
		}
		out = append(out, xsel.WithVariableNS(str(v.Sp), str(v.Lo), r))
	}
	for i := range env.Funcs {
		f := env.Funcs[i]
		idx := i + 1
		var konst xsel.Result
		if f.Kind == "const" {
			r, err := b.resultOf(*f.Val)
			if err != nil {
				return nil, err
			}
			konst = r
		}
		fn := func(c xsel.Context, args ...xsel.Result) (xsel.Result, error) {
			if calls != nil {
				rec := callRec{Fn: idx, Res: b.observe(c.Result()), Pos: c.ContextPosition()}
				for _, a := range args {
					rec.Args = append(rec.Args, b.observe(a))
				}
				*calls = append(*calls, rec)
			}
			switch f.Kind {
			case "arg":
				if f.I <= len(args) {
					return args[f.I-1], nil
				}
				return nil, fmt.Errorf("missing argument %d", f.I)
			case "const":
				return konst, nil
			case "ctxnode":
				return c.Result(), nil
			case "ctxpos":
				return xsel.Number(c.ContextPosition() + 1), nil
			case "nargs":
				return xsel.Number(len(args)), nil
			}
			return nil, fmt.Errorf("unknown function kind %q", f.Kind)
		}
		out = append(out, xsel.WithFunctionNS(str(f.Sp), str(f.Lo), fn))
	}
	return out, nil
}

type outcome struct {
	res   xsel.Result
	err   error
	panic any
}

func execSafe(c store_Cursor, g *xsel.Grammar, st []xsel.ContextApply) (o outcome) {
	defer func() {
		if r := recover(); r != nil {
			o.panic = r
		}
	}()
	o.res, o.err = xsel.Exec(c, g, st...)
	return
}

type store_Cursor = xsel.Cursor

var baseStyles = []Style{{}, {Abbrev: true, Space: 1}}

// judgeExec runs one (document, context node, expression, environment) on the real code in
// every rendering style and compares with the specification's value.
func (b *Built) judgeExec(fam string, env *Env, ctx int, e *Expr, want Val, styles []Style) (fails []Failure, judged bool, text0 string) {
	if want.T == "err" && skipWhys[want.Why] {
		return nil, false, ""
	}
	var bound []boundNS
	st, err := b.settings(env, nil, &bound)
	if err != nil {
		return []Failure{{Aspect: "harness", Fam: fam, Ctx: ctx, Detail: err.Error()}}, false, ""
	}
	start, ok := b.ByID[ctx]
	if !ok {
		return []Failure{{Aspect: "tree", Fam: fam, Ctx: ctx, Detail: "no cursor for the context node"}}, true, ""
	}
	seenText := map[string]bool{}
	for _, sty := range styles {
		text, err := Render(e, sty)
		if err != nil {
			return []Failure{{Aspect: "harness", Fam: fam, Ctx: ctx, Detail: "render: " + err.Error()}}, false, ""
		}
		if text0 == "" {
			text0 = text
		}
		if seenText[text] {
			continue
		}
		seenText[text] = true
		add := func(aspect, detail string) {
			fails = append(fails, Failure{Aspect: aspect, Fam: fam, Text: text, Ctx: ctx, Detail: detail})
		}
		c := compile(text)
		if c.err != nil {
			add("build", "BuildExpr rejected a valid expression: "+firstLine(c.err.Error()))
			continue
		}
		o := execSafe(start, &c.g, st)
		// a variable evaluates to the bound value and the binding is the caller's: the slice holds what it held, in the order it held it
		for _, bn := range bound {
			same := len(bn.held) == len(bn.was)
			for i := 0; same && i < len(bn.was); i++ {
				same = bn.held[i] == bn.was[i]
			}
			if !same {
				add("value", fmt.Sprintf("the node-set the caller bound to $%s was changed by the evaluation", bn.name))
				copy(bn.held, bn.was)
			}
		}
		switch {
		case o.panic != nil:
			add("panic", fmt.Sprintf("Exec panicked: %v", o.panic))
		case want.T == "err":
			if o.err == nil {
				add("error-expected", fmt.Sprintf("expected an error (%s), got %s", want.Why, short(b.observe(o.res))))
			}
		case o.err != nil:
			add("unexpected-error", "Exec failed: "+firstLine(o.err.Error()))
		case o.res == nil:
			add("nil-nil", "Exec returned a nil result and a nil error")
		default:
			if ok, why := b.valueAgrees(want, o.res); !ok {
				add("value", why+"; expected "+short(want)+" observed "+short(b.observe(o.res)))
			}
			if ok, why := b.orderOK(e, o.res, env); !ok {
				add("order", why)
			}
		}
	}
	return fails, true, text0
}

func firstLine(s string) string {
	for i := 0; i < len(s); i++ {
		if s[i] == '\n' {
			return s[:i]
		}
	}
	if len(s) > 200 {
		return s[:200]
	}
	return s
}

func short(v Val) string {
	b, _ := json.Marshal(v)
	if len(b) > 300 {
		return string(b[:300]) + "..."
	}
	return string(b)
}

func nontrivial(v Val) bool {
	switch v.T {
	case "ns":
		var ids []int
		json.Unmarshal(v.V, &ids)
		return len(ids) > 0
	case "num":
		var n Num
		json.Unmarshal(v.V, &n)
		return n.C != "nan"
	case "str":
		var cs []string
		json.Unmarshal(v.V, &cs)
		return len(cs) > 0
	case "bool":
		var x bool
		json.Unmarshal(v.V, &x)
		return x
	case "err":
		return !skipWhys[v.Why]
	case "numstr":
		return true
	}
	return false
}

func hash64(parts ...[]byte) uint64 {
	h := fnv.New64a()
	for _, p := range parts {
		h.Write(p)
		h.Write([]byte{0})
	}
	return h.Sum64()
}
