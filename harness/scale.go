package main

import (
	"encoding/json"
	"fmt"
	"math"
	"math/rand"
	"os"
	"reflect"
	"strconv"
	"strings"
	"sync"

	"github.com/ChrisTrenkamp/xsel"
)

// Scale (spec/Trace_Scale.tla): regular documents far larger / deeper than TLC enumerates; the value of every
// query of a fixed pool is a closed form in the size, which the trace specification knows.

var scaleQueries = []string{
	"count(/r/x)",
	"/r/x",
	"//x | //x",
	"/r/x[position() mod 2 = 1]",
	"(/r/x)[last()]",
	"sum(/r/x)",
	"/r/x[last()]/preceding-sibling::x",
	"count(//node())",
	"", // 9: /r/x[@i = N], filled in per document
	"string-length(string(/r))",
	"count(/r/x/@i | /r/x)",
	"(/r/x)[. > 0]",
	"/r/x[position() > 2]",
}

func scaleObserve(r xsel.Result) map[string]any {
	switch v := r.(type) {
	case xsel.Number:
		return map[string]any{"t": "num", "v": int64(float64(v))}
	case xsel.NodeSet:
		seen := map[xsel.Cursor]bool{}
		asc, dsc := true, true
		for i, c := range v {
			seen[c] = true
			if i > 0 {
				if c.Pos() <= v[i-1].Pos() {
					asc = false
				}
				if c.Pos() >= v[i-1].Pos() {
					dsc = false
				}
			}
		}
		num := func(c xsel.Cursor) int64 {
			n, _ := strconv.ParseInt(strings.TrimSpace(xsel.GetCursorString(c)), 10, 64)
			return n
		}
		o := map[string]any{"t": "ns", "count": len(v), "distinct": len(seen), "asc": asc, "dsc": dsc, "first": int64(0), "last": int64(0)}
		if len(v) > 0 {
			o["first"], o["last"] = num(v[0]), num(v[len(v)-1])
		}
		return o
	}
	return map[string]any{"t": fmt.Sprintf("%T", r)}
}

func seedTier() string { return os.Getenv("VERIF_TIER") }

func sameObs(a, b map[string]any) bool { return fmt.Sprint(a) == fmt.Sprint(b) }

func init() {
	commands["scale-record"] = func(a *cmdArgs) int {
		if err := openTraceOut(a.out); err != nil {
			return 2
		}
		defer closeTraceOut()
		thorough := seedTier() == "thorough"
		switch a.fam {
		case "docs":
			sizes := []int{1, 2, 3, 63, 64, 65, 511, 512, 513, 4095, 4097, 65535, 65536, 65537, 70001}
			if thorough {
				sizes = append(sizes, 131073, 262145, 1000003)
			}
			for _, n := range sizes {
				var b strings.Builder
				b.WriteString("<r>")
				for k := 1; k <= n; k++ {
					fmt.Fprintf(&b, `<x i="%d">%d</x>`, k, k)
				}
				b.WriteString("</r>")
				root, err := xsel.ReadXml(strings.NewReader(b.String()))
				if err != nil {
					fmt.Println("scale-record: ReadXml failed:", err)
					return 2
				}
				obs := make([]map[string]any, len(scaleQueries))
				stable := true
				for qi, q := range scaleQueries {
					if q == "" {
						q = fmt.Sprintf("/r/x[@i = %d]", n)
					}
					g, err := xsel.BuildExpr(q)
					if err != nil {
						fmt.Println("scale-record: BuildExpr failed:", q, err)
						return 2
					}
					o1 := execSafe(root, &g, nil)
					o2 := execSafe(root, &g, nil)
					if o1.err != nil || o1.panic != nil || o2.err != nil || o2.panic != nil {
						obs[qi] = map[string]any{"t": "err", "why": fmt.Sprint(o1.err, o1.panic, o2.err, o2.panic)}
						continue
					}
					obs[qi] = scaleObserve(o1.res)
					if !sameObs(obs[qi], scaleObserve(o2.res)) {
						stable = false
					}
				}
				writeTrace(map[string]any{"ev": "scale", "n": n, "obs": obs, "stable": stable})
			}
		case "nsdecl":
			// <a xmlns:p1=.. .. xmlns:pK=..><b/></a> with the xml prefix declared explicitly (to its own name, which is allowed) as the
			// J-th declaration of the start tag, J = 0 meaning not at all: a and b each have K + 1 namespace nodes, all 2(K + 1)
			// are different nodes with different positions, in ascending order
			for k := 1; k <= 6; k++ {
				for at := 0; at <= k+1; at++ {
					var b strings.Builder
					b.WriteString("<a")
					for i := 1; i <= k+1; i++ {
						if i == at {
							b.WriteString(` xmlns:xml="http://www.w3.org/XML/1998/namespace"`)
						}
						if i <= k {
							fmt.Fprintf(&b, ` xmlns:p%d="urn:u%d"`, i, i)
						}
					}
					b.WriteString("><b/></a>")
					root, err := xsel.ReadXml(strings.NewReader(b.String()))
					if err != nil {
						fmt.Println("scale-record: ReadXml failed:", b.String(), err)
						return 2
					}
					nsOf := func(q string, opts ...xsel.ContextApply) xsel.NodeSet {
						g := xsel.MustBuildExpr(q)
						ns, err := xsel.ExecAsNodeset(root, &g, opts...)
						if err != nil {
							return nil
						}
						return ns
					}
					rootNs, childNs, all := nsOf("/a/namespace::*"), nsOf("/a/b/namespace::*"), nsOf("//namespace::*")
					pos := map[int]bool{}
					asc := true
					for i, c := range all {
						pos[c.Pos()] = true
						if i > 0 && all[i-1].Pos() >= c.Pos() {
							asc = false
						}
					}
					union := nsOf("$x | $y", xsel.WithVariable("x", rootNs), xsel.WithVariable("y", childNs))
					writeTrace(map[string]any{"ev": "nsdecl", "k": k, "at": at, "rootNs": len(rootNs), "childNs": len(childNs), "all": len(all), "distinctPos": len(pos), "asc": asc, "union": len(union)})
				}
			}
		case "repeat":
			// the same query on the same tree, many times (the same compiled expression and freshly compiled ones): one value.
			// The texts are decimal fractions and numbers of very different magnitude, so any sum taken in another order,
			// any node visited twice or skipped, shows in the last bits
			vals := []string{"0.1", "0.2", "0.3", "0.7", "19.99", "1e3", "10000000000000000", "1", "-10000000000000000", "0.05", "3.3", "1.1", "2.675", "1.005", "-0.1", "123456.789"}
			queries := []string{"sum(//v)", "sum(/r/v[position() < 7])", "sum(//v | //w)", "string(sum(//v))", "sum(//v) div count(//v)", "sum(//v[. > 0.15])", "sum(//w/@a)",
				"sum(//v/preceding-sibling::v)", "//v[. > 0.5]", "sum(//v) = sum(//v)", "sum($all)", "sum($rev)", "count($all | $rev)", "sum(//v/following-sibling::*[1])", "string(//v[last()] + //v[1])"}
			for _, n := range []int{3, 5, 16, 40, 200} {
				var b strings.Builder
				b.WriteString("<r>")
				for k := 0; k < n; k++ {
					fmt.Fprintf(&b, `<v>%s</v><w a="%s">%s</w>`, vals[k%len(vals)], vals[(k*7+3)%len(vals)], vals[(k*5+1)%len(vals)])
				}
				b.WriteString("</r>")
				root, err := xsel.ReadXml(strings.NewReader(b.String()))
				if err != nil {
					fmt.Println("scale-record: ReadXml failed:", err)
					return 2
				}
				gall := xsel.MustBuildExpr("//v")
				all, _ := xsel.ExecAsNodeset(root, &gall)
				rev := make(xsel.NodeSet, len(all))
				for i, c := range all {
					rev[len(all)-1-i] = c
				}
				opts := []xsel.ContextApply{xsel.WithVariable("all", all), xsel.WithVariable("rev", rev)}
				runs := 60
				if thorough {
					runs = 400
				}
				distinct := make([]int, len(queries))
				for qi, q := range queries {
					g, err := xsel.BuildExpr(q)
					if err != nil {
						fmt.Println("scale-record: BuildExpr failed:", q, err)
						return 2
					}
					seen := map[string]bool{}
					for r := 0; r < runs; r++ {
						gg := &g
						if r%3 == 2 {
							fresh := xsel.MustBuildExpr(q)
							gg = &fresh
						}
						o := execSafe(root, gg, opts)
						key := ""
						switch {
						case o.err != nil || o.panic != nil:
							key = fmt.Sprint("err:", o.err, o.panic)
						default:
							if num, ok := o.res.(xsel.Number); ok {
								key = fmt.Sprintf("num:%x", math.Float64bits(float64(num)))
							} else if ns, ok := o.res.(xsel.NodeSet); ok {
								for _, c := range ns {
									key += fmt.Sprint(c.Pos(), ",")
								}
							} else {
								key = fmt.Sprintf("%T:%v", o.res, o.res)
							}
						}
						seen[key] = true
					}
					distinct[qi] = len(seen)
				}
				writeTrace(map[string]any{"ev": "repeat", "n": n, "runs": runs, "queries": len(queries), "distinct": distinct})
			}
		case "deepjson":
			depths := []int{1, 2, 63, 64, 65, 66, 128, 129, 1000}
			if thorough {
				depths = append(depths, 4096, 20000)
			}
			for _, d := range depths {
				text := `{"deep": ` + strings.Repeat("[", d) + "1" + strings.Repeat("]", d) + `, "after": 2}`
				ev := map[string]any{"ev": "deepjson", "depth": d, "err": false, "arrs": 0, "members": 0, "after": 0, "texts": 0, "afterParentIsObj": false}
				r := readSafe(func() (xsel.Cursor, error) { return xsel.ReadJson(strings.NewReader(text)) })
				if r.err != nil || r.panic != nil {
					ev["err"] = true
				} else {
					num := func(q string) int {
						g, err := xsel.BuildExpr(q)
						if err != nil {
							return -1
						}
						o := execSafe(r.root, &g, nil)
						if n, ok := o.res.(xsel.Number); ok && o.err == nil && o.panic == nil {
							return int(float64(n))
						}
						return -1
					}
					ev["arrs"] = num("count(//*[name() = '#arr'])")
					ev["members"] = num("count(/*/*)")
					ev["after"] = num("number(/*/after)")
					ev["texts"] = num("count(//text())")
					ev["afterParentIsObj"] = num("count(/*[name() = '#obj']/after)") == 1
				}
				writeTrace(ev)
			}
		case "deepxml":
			depths := []int{1, 2, 7, 8, 9, 15, 16, 17, 31, 32, 33, 64, 65, 300, 1000}
			if thorough {
				depths = append(depths, 5000, 20000)
			}
			for _, d := range depths {
				text := strings.Repeat("<e>1", d) + strings.Repeat("</e>a", d-1) + "</e>"
				ev := map[string]any{"ev": "deepxml", "depth": d, "err": false, "len": 0, "elems": 0, "texts": 0, "innerLen": 0}
				r := readSafe(func() (xsel.Cursor, error) { return xsel.ReadXml(strings.NewReader(text)) })
				if r.err != nil || r.panic != nil {
					ev["err"] = true
				} else {
					num := func(q string) int {
						g, err := xsel.BuildExpr(q)
						if err != nil {
							return -1
						}
						o := execSafe(r.root, &g, nil)
						if n, ok := o.res.(xsel.Number); ok && o.err == nil && o.panic == nil {
							return int(float64(n))
						}
						return -1
					}
					ev["len"] = num("string-length(string(/))")
					ev["elems"] = num("count(//e)")
					ev["texts"] = num("count(//text())")
					ev["innerLen"] = num("string-length(string(//e[not(e)]))")
				}
				writeTrace(ev)
			}
		case "deepconc":
			// one tree nested tens of thousands of levels deep, walked by many goroutines at once
			for _, cfg := range [][3]int{{20000, 32, 12}, {30000, 48, 8}} {
				d, gor, rounds := cfg[0], cfg[1], cfg[2]
				text := strings.Repeat("<e>", d) + strings.Repeat("<b/>", 2000) + strings.Repeat("</e>", d)
				root, err := xsel.ReadXml(strings.NewReader(text))
				if err != nil {
					fmt.Println("scale-record: ReadXml failed:", err)
					return 2
				}
				g, _ := xsel.BuildExpr("count(//e) + count(//b)")
				want := float64(d + 2000)
				var mu sync.Mutex
				evals, wrong, errs := 0, 0, 0
				for r := 0; r < rounds; r++ {
					var wg sync.WaitGroup
					start := make(chan struct{})
					for k := 0; k < gor; k++ {
						wg.Add(1)
						go func() {
							defer wg.Done()
							<-start
							o := execSafe(root, &g, nil)
							mu.Lock()
							evals++
							if o.err != nil || o.panic != nil {
								errs++
							} else if n, ok := o.res.(xsel.Number); !ok || float64(n) != want {
								wrong++
							}
							mu.Unlock()
						}()
					}
					close(start)
					wg.Wait()
				}
				writeTrace(map[string]any{"ev": "deepconc", "depth": d, "goroutines": gor, "rounds": rounds, "evals": evals, "wrong": wrong, "errors": errs})
			}
		case "coldconc":
			// a freshly compiled expression (never executed before) is first executed by 8 goroutines at once on a shared
			// tree; afterwards one more serial execution must agree with all of them (depth 0 = not about depth)
			rng := rand.New(rand.NewSource(seedFromEnv()*104729 + int64(a.sub)))
			g := &Gen{r: rng}
			b, err := Build(g.Doc(30))
			if err != nil {
				fmt.Println("scale-record: cannot build the document:", err)
				return 2
			}
			rounds, gor := 300, 8
			if thorough {
				rounds = 2000
			}
			evals, wrong, errs := 0, 0, 0
			for r := 0; r < rounds; r++ {
				e := g.Any(2)
				text, rerr := Render(e, Style{Abbrev: r%2 == 0, Space: 1})
				if rerr != nil {
					r--
					continue
				}
				gr, berr := xsel.BuildExpr(text)
				if berr != nil {
					continue // (open grammar findings)
				}
				st, _ := b.settings(&Env{Ns: NsMap{"p": uriU1, "q": uriU2}}, nil)
				ctx := b.ByID[1+rng.Intn(len(b.Doc))]
				outs := make([]string, gor)
				var wg sync.WaitGroup
				start := make(chan struct{})
				for k := 0; k < gor; k++ {
					wg.Add(1)
					go func(k int) {
						defer wg.Done()
						<-start
						j, _ := json.Marshal(obsJSON(b, execSafe(ctx, &gr, st)))
						outs[k] = string(j)
					}(k)
				}
				close(start)
				wg.Wait()
				j, _ := json.Marshal(obsJSON(b, execSafe(ctx, &gr, st)))
				for k := 0; k < gor; k++ {
					evals++
					if outs[k] != string(j) {
						wrong++
					}
					if strings.Contains(outs[k], "xpath query panic") || strings.Contains(outs[k], `"t":"panic"`) {
						errs++
					}
				}
				// ... evaluations that FAIL, each goroutine for its own reason (its own unbound prefix / variable / function), through one
				// shared settings slice with spare capacity: every goroutine gets the error of its own query
				shared := append(make([]xsel.ContextApply, 0, 8), st...)
				failing := func(k int) string {
					q := []string{"//u%d:x", "$nosuch%d", "nofn%d(1)", "//*[u%d:y]"}[k%4]
					fg, err := xsel.BuildExpr(fmt.Sprintf(q, r*10+k))
					if err != nil {
						return "build: " + err.Error()
					}
					o := execSafe(ctx, &fg, shared[:len(st)])
					return fmt.Sprint(o.err, o.panic)
				}
				msgs := make([]string, gor)
				wg = sync.WaitGroup{}
				start = make(chan struct{})
				for k := 0; k < gor; k++ {
					wg.Add(1)
					go func(k int) {
						defer wg.Done()
						<-start
						msgs[k] = failing(k)
					}(k)
				}
				close(start)
				wg.Wait()
				for k := 0; k < gor; k++ {
					evals++
					if msgs[k] != failing(k) {
						wrong++
					}
				}
				// ... and Unmarshal into struct types whose tags this process has never seen, by all goroutines at once
				// (whatever Unmarshal remembers about tags or types is cold)
				mk := func(i int) reflect.Type {
					return reflect.StructOf([]reflect.StructField{
						{Name: "N", Type: reflect.TypeOf(float64(0)), Tag: reflect.StructTag(fmt.Sprintf(`xsel:"count(.//*) + %d"`, r*100+i))},
						{Name: "S", Type: reflect.TypeOf(""), Tag: reflect.StructTag(fmt.Sprintf(`xsel:"concat(name(), '#%d')"`, r*100+i))}})
				}
				vals := make([]string, gor)
				wg = sync.WaitGroup{}
				start = make(chan struct{})
				for k := 0; k < gor; k++ {
					wg.Add(1)
					go func(k int) {
						defer wg.Done()
						defer func() {
							if p := recover(); p != nil {
								vals[k] = fmt.Sprint("panic: ", p)
							}
						}()
						<-start
						t := reflect.New(mk(k % 2)) // two fresh types per round, each used by four goroutines
						err := xsel.Unmarshal(xsel.NodeSet{ctx}, t.Interface())
						vals[k] = fmt.Sprint(t.Elem().Interface(), err)
					}(k)
				}
				close(start)
				wg.Wait()
				for k := 0; k < gor; k++ {
					t := reflect.New(mk(k % 2))
					err := xsel.Unmarshal(xsel.NodeSet{ctx}, t.Interface())
					evals++
					if vals[k] != fmt.Sprint(t.Elem().Interface(), err) {
						wrong++
					}
					if strings.HasPrefix(vals[k], "panic") {
						errs++
					}
				}
			}
			writeTrace(map[string]any{"ev": "deepconc", "depth": 0, "goroutines": 3 * gor, "rounds": evals / (3 * gor), "evals": evals, "wrong": wrong, "errors": errs})
		default:
			return 2
		}
		return 0
	}
}
