package main

import (
	"encoding/json"
	"fmt"
	"reflect"
	"strings"
	"sync"

	"github.com/ChrisTrenkamp/xsel"
)

// C19: Go types are built from the specification's type descriptors with reflect, filled by
// xsel.Unmarshal and projected back to the abstract filled value.

type TypeD struct {
	K string   `json:"k"`
	N string   `json:"n,omitempty"` // a struct type DECLARED under this name (several declared types may share a name)
	P string   `json:"p"`
	E *TypeD   `json:"e"`
	F []FieldD `json:"f"`
}
type FieldD struct {
	Tag      *Expr  `json:"tag"`
	Exported bool   `json:"exported"`
	Emb      bool   `json:"emb"` // an embedded (anonymous) member
	T        *TypeD `json:"t"`
}
type GV struct {
	K   string          `json:"k,omitempty"`
	V   json.RawMessage `json:"v,omitempty"`
	F   []GV            `json:"f,omitempty"`
	T   string          `json:"t,omitempty"`
	Why string          `json:"why,omitempty"`
	Rev bool            `json:"rev,omitempty"` // a list whose elements may also come in the reverse order (reverse-axis result)
}

var primTypes = map[string]reflect.Type{
	"string": reflect.TypeOf(""), "bool": reflect.TypeOf(true), "int": reflect.TypeOf(int(0)), "int8": reflect.TypeOf(int8(0)),
	"int16": reflect.TypeOf(int16(0)), "int32": reflect.TypeOf(int32(0)), "int64": reflect.TypeOf(int64(0)), "uint": reflect.TypeOf(uint(0)),
	"uint8": reflect.TypeOf(uint8(0)), "uint16": reflect.TypeOf(uint16(0)), "uint32": reflect.TypeOf(uint32(0)), "uint64": reflect.TypeOf(uint64(0)),
	"float32": reflect.TypeOf(float32(0)), "float64": reflect.TypeOf(float64(0)),
}

// the one statically declared shape with an unexported tagged field (reflect.StructOf cannot make one)
type hiddenField struct {
	f1 string `xsel:"child::b"`
}

type hiddenStructField struct {
	f1 struct {
		F1 string `xsel:"self::node()"`
	} `xsel:"child::b"`
}
type hiddenStructFieldSelf struct {
	f1 struct {
		F1 string `xsel:"self::node()"`
	} `xsel:"self::node()"`
}

func goType(t *TypeD) (reflect.Type, error) { return goTypeP(t, "F") }

// two different struct types declared under the same name in different functions: reflect.Type.String() is "main.Item" for both
// a recursive declared type (Unmarshal.tla: DirT)
type dirT struct {
	F1 string `xsel:"@id"`
	F2 []dirT `xsel:"child::*"`
}

var (
	declMu    sync.Mutex
	declTypes = map[string]*TypeD{} // declared struct types seen so far, by name (for the "ref" kind)
)

func declaredItemA() reflect.Type {
	type Item struct {
		F1 string `xsel:"a"`
		F2 string
	}
	return reflect.TypeOf(Item{})
}
func declaredItemB() reflect.Type {
	type Item struct {
		F1 string `xsel:"b"`
		F2 string
	}
	return reflect.TypeOf(Item{})
}

// prefix: field names are <prefix><i>; the fields of an embedded member get another prefix than the struct around it, so that Go
// promotes them (a promoted field is hidden by an outer field of the same name)
func goTypeP(t *TypeD, prefix string) (reflect.Type, error) {
	goType := func(t *TypeD) (reflect.Type, error) { return goTypeP(t, prefix) }
	switch t.K {
	case "prim":
		if rt, ok := primTypes[t.P]; ok {
			return rt, nil
		}
		return nil, fmt.Errorf("unknown primitive %q", t.P)
	case "ptr":
		e, err := goType(t.E)
		if err != nil {
			return nil, err
		}
		return reflect.PointerTo(e), nil
	case "slice":
		e, err := goType(t.E)
		if err != nil {
			return nil, err
		}
		return reflect.SliceOf(e), nil
	case "map":
		return reflect.TypeOf(map[string]string{}), nil
	case "array":
		return reflect.TypeOf([2]string{}), nil
	case "chan":
		return reflect.TypeOf(make(chan string)), nil
	case "iface":
		return reflect.TypeOf((*any)(nil)).Elem(), nil
	case "func":
		return reflect.TypeOf(func() {}), nil
	case "struct":
		if t.N == "Dir" {
			declMu.Lock()
			declTypes["Dir"] = t
			declMu.Unlock()
			return reflect.TypeOf(dirT{}), nil
		}
		if t.N != "" {
			// declared types: only the two shapes above (field 1 tagged child::a or child::b, field 2 an untagged string)
			if len(t.F) == 2 && t.F[0].Tag != nil && len(t.F[0].Tag.Steps) == 1 && t.F[0].T.K == "prim" && t.F[0].T.P == "string" {
				switch str(t.F[0].Tag.Steps[0].Test.Lo) {
				case "a":
					return declaredItemA(), nil
				case "b":
					return declaredItemB(), nil
				}
			}
			return nil, fmt.Errorf("no declared type for this shape")
		}
		for _, f := range t.F {
			if !f.Exported {
				if len(t.F) == 1 && f.T.K == "prim" && f.T.P == "string" {
					return reflect.TypeOf(hiddenField{}), nil
				}
				if len(t.F) == 1 && f.T.K == "struct" && len(f.T.F) == 1 && f.Tag != nil && len(f.Tag.Steps) == 1 {
					if f.Tag.Steps[0].Ax == "self" {
						return reflect.TypeOf(hiddenStructFieldSelf{}), nil
					}
					return reflect.TypeOf(hiddenStructField{}), nil
				}
				return nil, fmt.Errorf("unexported fields only in the declared shape")
			}
		}
		var fs []reflect.StructField
		for i, f := range t.F {
			var ft reflect.Type
			var err error
			if f.Emb {
				ft, err = goTypeP(f.T, "E"+prefix)
			} else {
				ft, err = goType(f.T)
			}
			if err != nil {
				return nil, err
			}
			sf := reflect.StructField{Name: fmt.Sprintf("%s%d", prefix, i+1), Type: ft, Anonymous: f.Emb}
			if f.Tag != nil && f.Tag.Op != "none" {
				// every other field's tag in abbreviated syntax with minimal spacing (@x, b/@x, ..), the others spelled out
				text, err := Render(f.Tag, Style{Abbrev: i%2 == 0, Space: 1})
				if err != nil {
					return nil, err
				}
				if strings.ContainsAny(text, "\"`") {
					return nil, fmt.Errorf("tag text needs quoting")
				}
				sf.Tag = reflect.StructTag(`xsel:"` + text + `"`)
			}
			fs = append(fs, sf)
		}
		return reflect.StructOf(fs), nil
	}
	return nil, fmt.Errorf("unknown type kind %q", t.K)
}

const sentinelStr = "SENTINEL"
const sentinelNum = 77

// presetPtr: a tagged pointer field that held a struct of the caller's before the call
type presetPtr struct {
	field reflect.Value // the field (addressable)
	old   reflect.Value // the pointer it held
}

// prefill puts sentinels into untagged primitive fields so that "left untouched" is observable
func prefill(v reflect.Value, t *TypeD) { prefillP(v, t, nil) }

// pre != nil: tagged *struct fields are handed over pointing to a struct of the caller's (sentinels in its untagged fields);
// Unmarshal allocates such fields freshly, so afterwards the field holds ANOTHER pointer and the caller's struct is as it was
func prefillP(v reflect.Value, t *TypeD, pre *[]presetPtr) {
	if t.K != "struct" || v.Kind() != reflect.Struct {
		return
	}
	for i, f := range t.F {
		if pre != nil && f.Tag != nil && f.Tag.Op != "none" && f.T.K == "ptr" && f.T.E.K == "struct" && f.T.E.N == "" {
			if fv := v.Field(i); fv.Kind() == reflect.Pointer && fv.CanSet() && fv.Type().Elem().Kind() == reflect.Struct {
				p := reflect.New(fv.Type().Elem())
				sentinelAll(p.Elem())
				fv.Set(p)
				*pre = append(*pre, presetPtr{field: fv, old: p})
				continue
			}
		}
		if f.Tag != nil && f.Tag.Op != "none" {
			// a nested struct held by value keeps its own untagged fields, too
			if f.T.K == "struct" && v.Field(i).Kind() == reflect.Struct {
				prefill(v.Field(i), f.T)
			}
			// a tagged slice field that already holds something (a re-used target): afterwards it must hold one
			// element per selected node, not the old content plus the new
			if fv := v.Field(i); f.T.K == "slice" && fv.Kind() == reflect.Slice && fv.CanSet() {
				fv.Set(reflect.MakeSlice(fv.Type(), 1, 4))
			}
			continue
		}
		fv := v.Field(i)
		if !fv.CanSet() {
			continue
		}
		sentinelAll(fv)
	}
}

// sentinelAll: an untagged member is left alone as a whole - every string and signed-integer field inside it gets the sentinel
func sentinelAll(fv reflect.Value) {
	switch fv.Kind() {
	case reflect.String:
		fv.SetString(sentinelStr)
	case reflect.Int, reflect.Int8, reflect.Int16, reflect.Int32, reflect.Int64:
		fv.SetInt(sentinelNum)
	case reflect.Struct:
		for i := 0; i < fv.NumField(); i++ {
			if fv.Field(i).CanSet() {
				sentinelAll(fv.Field(i))
			}
		}
	}
}

// untouched: does an untagged member still hold what prefill put there (zero values when Unmarshal allocated the struct around it)?
func untouched(fv reflect.Value, fresh bool) bool {
	if fresh && fv.IsZero() {
		return true
	}
	switch fv.Kind() {
	case reflect.String:
		return fv.String() == sentinelStr
	case reflect.Int, reflect.Int8, reflect.Int16, reflect.Int32, reflect.Int64:
		return fv.Int() == sentinelNum
	case reflect.Struct:
		for i := 0; i < fv.NumField(); i++ {
			if fv.Field(i).CanSet() && !untouched(fv.Field(i), fresh) {
				return false
			}
		}
		return true
	case reflect.Pointer, reflect.Slice, reflect.Map:
		return fv.IsNil() // prefill leaves these nil
	}
	return true
}

func project(v reflect.Value, t *TypeD) GV { return projectF(v, t, false) }

// fresh: the value was allocated by Unmarshal (behind a pointer or in a slice), so its untagged
// fields hold zero values rather than the sentinels
func projectF(v reflect.Value, t *TypeD, fresh bool) GV {
	for v.Kind() == reflect.Pointer {
		fresh = true
		if v.IsNil() {
			return GV{K: "nilptr"}
		}
		v = v.Elem()
	}
	for t.K == "ptr" {
		t = t.E
	}
	if t.K == "ref" {
		declMu.Lock()
		t = declTypes[t.N]
		declMu.Unlock()
		if t == nil {
			return GV{K: "?ref"}
		}
	}
	switch v.Kind() {
	case reflect.String:
		return GV{K: "str", V: mkJSON(codes(v.String()))}
	case reflect.Bool:
		return GV{K: "bool", V: mkJSON(v.Bool())}
	case reflect.Int, reflect.Int8, reflect.Int16, reflect.Int32, reflect.Int64:
		return GV{K: "num", V: mkJSON(numOf(float64(v.Int())))}
	case reflect.Uint, reflect.Uint8, reflect.Uint16, reflect.Uint32, reflect.Uint64:
		return GV{K: "num", V: mkJSON(numOf(float64(v.Uint())))}
	case reflect.Float32, reflect.Float64:
		return GV{K: "num", V: mkJSON(numOf(v.Float()))}
	case reflect.Slice:
		out := GV{K: "list", F: []GV{}}
		for i := 0; i < v.Len(); i++ {
			out.F = append(out.F, projectF(v.Index(i), t.E, true))
		}
		return out
	case reflect.Struct:
		out := GV{K: "rec", F: []GV{}}
		for i := 0; i < v.NumField(); i++ {
			var ft *TypeD
			untagged := false
			if i < len(t.F) {
				ft = t.F[i].T
				untagged = t.F[i].Tag == nil || t.F[i].Tag.Op == "none"
			}
			if untagged {
				fv := v.Field(i)
				if untouched(fv, fresh) {
					out.F = append(out.F, GV{K: "keep"})
				} else {
					out.F = append(out.F, GV{K: "overwritten"})
				}
				continue
			}
			out.F = append(out.F, projectF(v.Field(i), ft, fresh))
		}
		return out
	}
	return GV{K: "?" + v.Kind().String()}
}

// expected filled value (spec) in the same shape as project()
func (g GV) norm() GV {
	out := GV{K: g.K, V: g.V, Rev: g.Rev}
	if g.K == "list" {
		var elems []GV
		json.Unmarshal(g.V, &elems)
		out.V = nil
		out.F = []GV{}
		for _, e := range elems {
			out.F = append(out.F, e.norm())
		}
	}
	if g.K == "rec" {
		out.F = []GV{}
		for _, e := range g.F {
			out.F = append(out.F, e.norm())
		}
	}
	return out
}

func sameGV(a, b GV) bool {
	if a.K != b.K || len(a.F) != len(b.F) {
		return false
	}
	if a.K == "num" {
		var x, y Num
		json.Unmarshal(a.V, &x)
		json.Unmarshal(b.V, &y)
		fx, _ := x.Float()
		fy, _ := y.Float()
		return sameFloat(fx, fy) || (fx == 0 && fy == 0)
	}
	if a.K == "str" || a.K == "bool" {
		return string(a.V) == string(b.V)
	}
	fwd := true
	for i := range a.F {
		if !sameGV(a.F[i], b.F[i]) {
			fwd = false
			break
		}
	}
	if fwd || !(a.K == "list" && (a.Rev || b.Rev)) {
		return fwd
	}
	// a list filled from a reverse-axis result: "result order" may be descending
	for i := range a.F {
		if !sameGV(a.F[len(a.F)-1-i], b.F[i]) {
			return false
		}
	}
	return true
}

// every call is made with the target as it comes (pointer fields nil); when the type has pointers it is made once more with the
// tagged pointer-to-struct fields preset to structs of the caller's
func unmarshalCase(line string, rep *Report, fnd *Findings) {
	unmarshalCaseV(line, rep, fnd, false)
	if strings.Contains(line, `"k":"ptr"`) {
		unmarshalCaseV(line, rep, fnd, true)
	}
}

func unmarshalCaseV(line string, rep *Report, fnd *Findings, preset bool) {
	var gl struct {
		Doc    Doc    `json:"doc"`
		Twin   Doc    `json:"twin"` // if present: the node-set is the query's result in doc followed by its result in twin
		Env    *Env   `json:"env"`
		Type   TypeD  `json:"type"`
		Form   string `json:"form"`
		Result Expr   `json:"result"`
		Out    GV     `json:"out"`
	}
	if err := json.Unmarshal([]byte(line), &gl); err != nil {
		rep.infra("bad C19 line: " + err.Error())
		return
	}
	desc := fmt.Sprintf("Unmarshal(%s of %s)", gl.Form, short2(gl.Type))
	fail := func(aspect, detail string) {
		rep.addFailure(Failure{Aspect: aspect, Fam: "C19.unmarshal", Text: desc, Detail: detail}, map[string]any{"fam": "C19.unmarshal", "line": json.RawMessage(line)})
	}
	if gl.Out.T == "err" && gl.Out.Why == "unk" {
		rep.mu.Lock()
		rep.Cases++
		rep.Skipped++
		rep.mu.Unlock()
		return
	}
	b, err := Build(gl.Doc)
	if err != nil {
		rep.infra(err.Error())
		return
	}
	text, err := Render(&gl.Result, Style{})
	if err != nil {
		rep.infra(err.Error())
		return
	}
	c := compile(text)
	if c.err != nil {
		rep.infra("result expression does not compile: " + c.err.Error())
		return
	}
	if gl.Env == nil {
		gl.Env = &Env{}
	}
	settings, err := b.settings(gl.Env, nil)
	if err != nil {
		rep.infra(err.Error())
		return
	}
	o := execSafe(b.Root, &c.g, settings)
	if o.err != nil || o.panic != nil {
		rep.infra(fmt.Sprint("result expression failed: ", o.err, o.panic))
		return
	}
	if len(gl.Twin) > 0 {
		// nodes of two documents in one call
		tb, err := Build(gl.Twin)
		if err != nil {
			rep.infra(err.Error())
			return
		}
		o2 := execSafe(tb.Root, &c.g, settings)
		ns1, ok1 := o.res.(xsel.NodeSet)
		ns2, ok2 := o2.res.(xsel.NodeSet)
		if o2.err != nil || o2.panic != nil || !ok1 || !ok2 {
			rep.infra("two-document case needs node-set results")
			return
		}
		o.res = append(append(xsel.NodeSet{}, ns1...), ns2...)
		desc += " over nodes of two documents"
	}
	rt, err := goType(&gl.Type)
	if err != nil {
		rep.infra("cannot build type: " + err.Error())
		return
	}
	holder := reflect.New(rt) // *T, non-nil
	var presets []presetPtr
	if preset {
		prefillP(holder.Elem(), &gl.Type, &presets)
	} else {
		prefill(holder.Elem(), &gl.Type)
	}
	// a target that is itself a chain of pointers (**T): every other case hands the chain over fully allocated, with the caller's
	// own struct at its end - Unmarshal allocates only the links that are nil, so untagged fields of that struct are kept
	prealloc := false
	if gl.Type.K == "ptr" && gl.Form == "ptr" && hash64([]byte(line))%2 == 1 {
		v, t := holder.Elem(), &gl.Type
		for t.K == "ptr" && v.Kind() == reflect.Pointer {
			v.Set(reflect.New(v.Type().Elem()))
			v, t = v.Elem(), t.E
		}
		if t.K == "struct" {
			prefill(v, t)
			prealloc = true
		} else {
			holder = reflect.New(rt)
		}
	}
	projectTarget := func() GV {
		if !prealloc {
			return project(holder.Elem(), &gl.Type)
		}
		v, t := holder.Elem(), &gl.Type
		for v.Kind() == reflect.Pointer && !v.IsNil() {
			v = v.Elem()
		}
		for t.K == "ptr" {
			t = t.E
		}
		return projectF(v, t, false)
	}
	var target any
	switch gl.Form {
	case "ptr":
		target = holder.Interface()
	case "nonptr":
		target = holder.Elem().Interface()
	case "nilptr":
		target = reflect.Zero(reflect.PointerTo(rt)).Interface()
	case "nil":
		target = nil
	}
	var uerr error
	var pan any
	func() {
		defer func() { pan = recover() }()
		uerr = xsel.Unmarshal(o.res, target, settings...)
	}()
	rep.mu.Lock()
	rep.Cases++
	rep.Judged++
	h := hash64([]byte(line))
	if !rep.seen[h] {
		rep.seen[h] = true
		if gl.Out.T != "err" {
			rep.nontriv[h] = true
		}
	}
	if len(rep.Samples) < 3 && gl.Out.T != "err" && gl.Out.K == "rec" {
		rep.Samples = append(rep.Samples, map[string]any{"type": gl.Type, "form": gl.Form, "result_of": text, "expected": gl.Out})
	}
	rep.mu.Unlock()
	switch {
	case pan != nil:
		fail("panic", fmt.Sprint("Unmarshal panicked: ", pan))
	case gl.Out.T == "err":
		if uerr == nil {
			fail("error-expected", "expected an error ("+gl.Out.Why+"), Unmarshal returned nil; target now "+short2(project(holder.Elem(), &gl.Type)))
		}
	case uerr != nil:
		fail("unexpected-error", "Unmarshal failed: "+uerr.Error())
	default:
		got := projectTarget()
		want := gl.Out.norm()
		if !sameGV(want, got) {
			fail("value", "expected "+short2(want)+" got "+short2(got))
		}
		for _, ps := range presets {
			// pointer fields are freshly allocated: the struct the field pointed to before is the caller's and stays as it was
			if !ps.field.IsNil() && ps.field.Pointer() == ps.old.Pointer() {
				fail("value", "a tagged pointer field was filled through the pointer it held before the call instead of being freshly allocated")
			} else if !untouched(ps.old.Elem(), false) {
				fail("value", "the struct a tagged pointer field pointed to before the call was written to")
			}
		}
	}
}

func init() {
	otherFamilies["C19."] = unmarshalCase
	replayOneHandlers["C19."] = func(b []byte, fnd *Findings) bool {
		var rc struct {
			Line json.RawMessage `json:"line"`
		}
		json.Unmarshal(b, &rc)
		rep := newReport("")
		unmarshalCase(string(rc.Line), rep, fnd)
		for _, f := range rep.Failures {
			fmt.Printf("REPRODUCED %s: %s :: %s\n", f.Aspect, f.Text, f.Detail)
		}
		return len(rep.Failures) > 0
	}
}

// canonical JSON shapes for the trace specification (no nulls, exactly the fields of the shape)
func (t TypeD) MarshalJSON() ([]byte, error) {
	switch t.K {
	case "prim":
		return json.Marshal(map[string]any{"k": t.K, "p": t.P})
	case "ref":
		return json.Marshal(map[string]any{"k": t.K, "n": t.N})
	case "ptr", "slice":
		return json.Marshal(map[string]any{"k": t.K, "e": t.E})
	case "struct":
		if t.N != "" {
			return json.Marshal(map[string]any{"k": t.K, "f": nn(t.F), "n": t.N})
		}
		return json.Marshal(map[string]any{"k": t.K, "f": nn(t.F)})
	}
	return json.Marshal(map[string]any{"k": t.K})
}

func (f FieldD) MarshalJSON() ([]byte, error) {
	var tag any = map[string]any{"op": "none"}
	if f.Tag != nil && f.Tag.Op != "none" {
		tag = f.Tag
	}
	return json.Marshal(map[string]any{"tag": tag, "exported": f.Exported, "t": f.T})
}

// traceGV: the projected target in the shape of Unmarshal.tla's filled values
func traceGV(g GV) any {
	switch g.K {
	case "rec":
		fs := []any{}
		for _, x := range g.F {
			fs = append(fs, traceGV(x))
		}
		return map[string]any{"k": "rec", "f": fs}
	case "list":
		fs := []any{}
		for _, x := range g.F {
			fs = append(fs, traceGV(x))
		}
		return map[string]any{"k": "list", "v": fs}
	case "str", "bool", "num":
		return map[string]any{"k": g.K, "v": g.V}
	}
	return map[string]any{"k": g.K}
}

var tagPool = []func() *Expr{
	func() *Expr { return &Expr{Op: "path", Steps: []Step{{Ax: "child", Test: &Test{K: "any"}}}} },
	func() *Expr { return &Expr{Op: "path", Steps: []Step{{Ax: "attribute", Test: &Test{K: "any"}}}} },
	func() *Expr { return &Expr{Op: "path", Steps: []Step{{Ax: "child", Test: &Test{K: "text"}}}} },
	func() *Expr { return &Expr{Op: "path", Steps: []Step{{Ax: "self", Test: &Test{K: "node"}}}} },
	func() *Expr { return &Expr{Op: "path", Steps: []Step{{Ax: "parent", Test: &Test{K: "node"}}}} },
	func() *Expr {
		return call("count", &Expr{Op: "path", Steps: []Step{{Ax: "child", Test: &Test{K: "any"}}}})
	},
	func() *Expr {
		return &Expr{Op: "path", Steps: []Step{{Ax: "following-sibling", Test: &Test{K: "any"}}}}
	},
	func() *Expr {
		return &Expr{Op: "path", Steps: []Step{{Ax: "child", Test: &Test{K: "nsany", Pre: "p"}}}}
	},
	func() *Expr {
		return call("string", &Expr{Op: "path", Steps: []Step{{Ax: "self", Test: &Test{K: "node"}}}})
	},
	func() *Expr { return &Expr{Op: "path", Abs: true, Steps: []Step{{Ax: "child", Test: &Test{K: "any"}}}} },
}

func (g *Gen) randType(depth int) *TypeD {
	prims := []string{"string", "bool", "int", "int16", "uint8", "float64", "string", "string"}
	prim := func() *TypeD { return &TypeD{K: "prim", P: prims[g.r.Intn(len(prims))]} }
	if depth <= 0 {
		return prim()
	}
	switch g.r.Intn(12) {
	case 0, 1:
		return prim()
	case 2:
		return &TypeD{K: "ptr", E: g.randType(depth - 1)}
	case 3, 4:
		return &TypeD{K: "slice", E: []*TypeD{prim(), {K: "ptr", E: prim()}, g.randType(depth - 1)}[g.r.Intn(3)]}
	case 5:
		return &TypeD{K: []string{"map", "array", "chan", "iface", "func"}[g.r.Intn(5)]}
	}
	t := &TypeD{K: "struct"}
	for n := 1 + g.r.Intn(3); n > 0; n-- {
		f := FieldD{Exported: true, T: g.randType(depth - 1)}
		if g.r.Intn(5) > 0 {
			f.Tag = tagPool[g.r.Intn(len(tagPool))]()
		} else {
			f.Tag = &Expr{Op: "none"}
			f.T = []*TypeD{{K: "prim", P: "string"}, {K: "prim", P: "int"}}[g.r.Intn(2)]
		}
		t.F = append(t.F, f)
	}
	return t
}

// unmarshalTraced performs one xsel.Unmarshal inside a session and logs it
func (s *Session) unmarshalTraced(g *Gen, ctx int) {
	env := &Env{Ns: NsMap{"p": uriU1, "q": uriU2}}
	settings, _ := s.b.settings(env, nil)
	e := g.NodeSet(1, false)
	if g.r.Intn(4) == 0 {
		e = g.Any(1)
	}
	text, err := Render(e, Style{Abbrev: true, Space: 1})
	if err != nil {
		return
	}
	c := compile(text)
	if c.err != nil {
		return
	}
	if o := execSafe(s.b.ByID[ctx], &c.g, settings); o.err != nil || o.panic != nil || o.res == nil {
		return
	}
	typ := g.randType(2)
	if g.r.Intn(3) > 0 && typ.K != "struct" && typ.K != "slice" {
		typ = &TypeD{K: "struct", F: []FieldD{{Exported: true, Tag: tagPool[g.r.Intn(len(tagPool))](), T: typ}}}
	}
	form := []string{"ptr", "ptr", "ptr", "ptr", "nonptr", "nilptr", "nil"}[g.r.Intn(7)]
	s.doUnmarshal(ctx, e, text, typ, form)
}

func (s *Session) doUnmarshal(ctx int, e *Expr, text string, typ *TypeD, form string) {
	env := &Env{Ns: NsMap{"p": uriU1, "q": uriU2}}
	settings, _ := s.b.settings(env, nil)
	c := compile(text)
	if c.err != nil {
		return
	}
	o := execSafe(s.b.ByID[ctx], &c.g, settings)
	if o.err != nil || o.panic != nil || o.res == nil {
		return
	}
	rt, err := goType(typ)
	if err != nil {
		return
	}
	holder := reflect.New(rt)
	prefill(holder.Elem(), typ)
	var target any
	switch form {
	case "ptr":
		target = holder.Interface()
	case "nonptr":
		target = holder.Elem().Interface()
	case "nilptr":
		target = reflect.Zero(reflect.PointerTo(rt)).Interface()
	}
	var uerr error
	var pan any
	func() {
		defer func() { pan = recover() }()
		uerr = xsel.Unmarshal(o.res, target, settings...)
	}()
	var out any
	switch {
	case pan != nil:
		out = map[string]any{"t": "panic", "why": fmt.Sprint(pan)}
	case uerr != nil:
		out = map[string]any{"t": "err", "why": firstLine(uerr.Error())}
	default:
		out = traceGV(project(holder.Elem(), typ))
	}
	s.enc.Encode(map[string]any{"ev": "unmarshal", "h": s.h, "ctx": ctx, "env": traceEnv(env), "e": e, "text": text, "type": typ, "form": form, "out": out,
		"held": s.heldSnapshot(), "dochash": docDigest(s.b.Root)})
}
