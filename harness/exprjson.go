package main

import "encoding/json"

// Canonical JSON shapes (every field of the shape present) so that the TLA+ side can
// select fields without testing for their presence.

func nn[T any](s []T) []T {
	if s == nil {
		return []T{}
	}
	return s
}

func (e Expr) MarshalJSON() ([]byte, error) {
	switch e.Op {
	case "path":
		return json.Marshal(map[string]any{"op": e.Op, "abs": e.Abs, "steps": nn(e.Steps)})
	case "filter":
		return json.Marshal(map[string]any{"op": e.Op, "prim": e.Prim, "preds": nn(e.Preds), "steps": nn(e.Steps)})
	case "num":
		return json.Marshal(map[string]any{"op": e.Op, "v": e.V})
	case "lit", "numtext":
		return json.Marshal(map[string]any{"op": e.Op, "s": nn(e.S)})
	case "var":
		return json.Marshal(map[string]any{"op": e.Op, "pre": e.Pre, "lo": nn(e.Lo)})
	case "call":
		return json.Marshal(map[string]any{"op": e.Op, "pre": e.Pre, "lo": nn(e.Lo), "args": nn(e.Args)})
	case "neg":
		return json.Marshal(map[string]any{"op": e.Op, "a": e.A})
	}
	return json.Marshal(map[string]any{"op": e.Op, "l": e.L, "r": e.R})
}

func (s Step) MarshalJSON() ([]byte, error) {
	if s.Fn != nil {
		return json.Marshal(map[string]any{"fn": s.Fn})
	}
	return json.Marshal(map[string]any{"ax": s.Ax, "test": s.Test, "preds": nn(s.Preds)})
}

func (t Test) MarshalJSON() ([]byte, error) {
	switch t.K {
	case "pit":
		return json.Marshal(map[string]any{"k": t.K, "target": nn(t.Target)})
	case "name":
		return json.Marshal(map[string]any{"k": t.K, "pre": t.Pre, "lo": nn(t.Lo)})
	case "nsany":
		return json.Marshal(map[string]any{"k": t.K, "pre": t.Pre})
	case "localany":
		return json.Marshal(map[string]any{"k": t.K, "lo": nn(t.Lo)})
	}
	return json.Marshal(map[string]any{"k": t.K})
}

func (n Num) MarshalJSON() ([]byte, error) {
	switch n.C {
	case "inf", "zero":
		return json.Marshal(map[string]any{"c": n.C, "s": n.S})
	case "fin":
		return json.Marshal(map[string]any{"c": n.C, "s": n.S, "n": n.N, "d": n.D})
	case "named":
		return json.Marshal(map[string]any{"c": n.C, "id": n.ID})
	case "pow2":
		return json.Marshal(map[string]any{"c": n.C, "s": n.S, "e": n.E})
	case "other":
		return json.Marshal(map[string]any{"c": n.C, "bits": n.B})
	}
	return json.Marshal(map[string]any{"c": n.C})
}
