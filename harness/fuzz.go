package main

import (
	"encoding/json"
	"fmt"
	"math/rand"
	"os"
	"os/exec"
	"reflect"
	"strings"
	"time"

	"github.com/ChrisTrenkamp/xsel"
)

// C15 (exploration): every public entry point under recover, on structured inputs from the
// generators of the other properties plus seeded byte-level mutation; batches run in a child
// process so that a process-fatal failure (stack exhaustion, fatal error) is contained and seen.

type fuzzReport struct {
	Inputs     int            `json:"inputs"`
	Distinct   int            `json:"distinct"`
	Nontrivial int            `json:"nontrivial"` // inputs that got past the first stage (compiled / parsed)
	Problems   []fuzzProblem  `json:"problems"`
	Kinds      map[string]int `json:"kinds"`
	Samples    []string       `json:"samples"`
}
type fuzzProblem struct {
	Kind   string `json:"kind"` // panic | nil-nil | internal-panic | hang
	Entry  string `json:"entry"`
	Input  string `json:"input"`
	Detail string `json:"detail"`
}

func mutate(rng *rand.Rand, s string) string {
	b := []byte(s)
	for n := 1 + rng.Intn(3); n > 0; n-- {
		switch rng.Intn(6) {
		case 0: // delete a chunk
			if len(b) > 1 {
				i := rng.Intn(len(b))
				j := i + 1 + rng.Intn(min(4, len(b)-i))
				b = append(b[:i:i], b[j:]...)
			}
		case 1: // insert an interesting token
			tok := []string{"(", ")", "[", "]", "/", "//", "::", "@", "*", "|", "$", "'", "\"", "<", ">", "&", "{", "}", ":", ",", "-", ".", "..", "\x00", "\xff", "é", " or ", " div ", "<!--", "]]>", "<?", "\\", "#", "1e9", "0x1"}[rng.Intn(35)]
			i := rng.Intn(len(b) + 1)
			b = append(b[:i:i], append([]byte(tok), b[i:]...)...)
		case 2: // replace a byte
			if len(b) > 0 {
				b[rng.Intn(len(b))] = byte(rng.Intn(256))
			}
		case 3: // duplicate a chunk
			if len(b) > 0 {
				i := rng.Intn(len(b))
				j := i + 1 + rng.Intn(min(8, len(b)-i))
				b = append(b[:j:j], append(append([]byte{}, b[i:j]...), b[j:]...)...)
			}
		case 4: // truncate
			if len(b) > 0 {
				b = b[:rng.Intn(len(b))]
			}
		case 5: // swap two bytes
			if len(b) > 1 {
				i, j := rng.Intn(len(b)), rng.Intn(len(b))
				b[i], b[j] = b[j], b[i]
			}
		}
	}
	return string(b)
}

func min(a, b int) int {
	if a < b {
		return a
	}
	return b
}

func fuzzBatch(seed int64, n int, adversarial bool) *fuzzReport {
	rng := rand.New(rand.NewSource(seed))
	rep := &fuzzReport{Kinds: map[string]int{}}
	seen := map[uint64]bool{}
	g := &Gen{r: rng, nsVars: []string{"v"}, numVars: []string{"n"}, strVars: []string{"s"}}
	docs := []*Built{}
	for i := 0; i < 3; i++ {
		b, err := Build(g.Doc(12 + 6*i))
		if err == nil {
			docs = append(docs, b)
		}
	}
	problem := func(kind, entry, input, detail string) {
		rep.Kinds[kind]++
		if len(rep.Problems) < 40 {
			if len(input) > 400 {
				input = input[:400] + "..."
			}
			rep.Problems = append(rep.Problems, fuzzProblem{Kind: kind, Entry: entry, Input: input, Detail: detail})
		}
	}
	count := func(in string) {
		rep.Inputs++
		h := hash64([]byte(in))
		if !seen[h] {
			seen[h] = true
			rep.Distinct++
		}
	}
	opts := func(b *Built) []xsel.ContextApply {
		// arbitrary bindings include degenerate ones: a variable bound to the nil interface, one bound to a nil
		// node-set, and a binding for the empty prefix
		return []xsel.ContextApply{xsel.WithNS("p", "u1"), xsel.WithNS("q", "u2"), xsel.WithNS("", "u3"), xsel.WithVariable("v", xsel.NodeSet{b.Root}), xsel.WithVariable("n", xsel.Number(1.5)),
			xsel.WithVariable("z", nil), xsel.WithVariable("e", xsel.NodeSet(nil)),
			xsel.WithVariable("s", xsel.String("a b")), xsel.WithFunction("f", func(c xsel.Context, a ...xsel.Result) (xsel.Result, error) {
				if len(a) > 2 {
					return nil, fmt.Errorf("too many")
				}
				return c.Result(), nil
			}),
			// a function of the caller's that panics when called without arguments: the panic must come back as an error
			xsel.WithFunction("boom", func(c xsel.Context, a ...xsel.Result) (xsel.Result, error) { return a[0], nil })}
	}
	tryExpr := func(text string, wellTyped bool) {
		count(text)
		var gr xsel.Grammar
		var err error
		var pan any
		func() {
			defer func() { pan = recover() }()
			gr, err = xsel.BuildExpr(text)
		}()
		if pan != nil {
			problem("panic", "BuildExpr", text, fmt.Sprint(pan))
			return
		}
		// a second build of the same string (libraries memoise): same verdict, and never an empty query with a nil error
		func() {
			defer func() {
				if r := recover(); r != nil {
					problem("panic", "BuildExpr", text, fmt.Sprint("second build: ", r))
				}
			}()
			g2, err2 := xsel.BuildExpr(text)
			if err2 == nil && g2.BSR == nil {
				problem("nil-nil", "BuildExpr", text, "second BuildExpr of the same string: empty query (nil parse tree) with nil error")
			} else if (err == nil) != (err2 == nil) {
				problem("nil-nil", "BuildExpr", text, fmt.Sprintf("BuildExpr of the same string: first %v, then %v", err, err2))
			}
		}()
		if err != nil {
			return
		}
		rep.Nontrivial++
		for _, b := range docs {
			ctx := b.ByID[1+rng.Intn(len(b.Doc))]
			o := execSafe(ctx, &gr, opts(b))
			switch {
			case o.panic != nil:
				problem("panic", "Exec", text, fmt.Sprint(o.panic))
			case o.err == nil && o.res == nil:
				problem("nil-nil", "Exec", text, "nil result with nil error")
			case o.err != nil && wellTyped && strings.Contains(o.err.Error(), "xpath query panic"):
				problem("internal-panic", "Exec", text, "a well-typed query failed with: "+firstLine(o.err.Error()))
			}
			// the convenience wrappers
			func() {
				defer func() {
					if r := recover(); r != nil {
						problem("panic", "ExecAs*", text, fmt.Sprint(r))
					}
				}()
				xsel.ExecAsString(ctx, &gr, opts(b)...)
				xsel.ExecAsNumber(ctx, &gr, opts(b)...)
				if ns, err := xsel.ExecAsNodeset(ctx, &gr, opts(b)...); err == nil && ns == nil {
					if r, _ := xsel.Exec(ctx, &gr, opts(b)...); r != nil {
						if x, ok := r.(xsel.NodeSet); !ok || x != nil {
							problem("nil-nil", "ExecAsNodeset", text, "nil node-set with nil error")
						}
					}
				}
			}()
		}
	}
	tryDoc := func(kind, text string) {
		count(kind + ":" + text)
		var r readResult
		switch kind {
		case "xml":
			r = readSafe(func() (xsel.Cursor, error) { return xsel.ReadXml(strings.NewReader(text)) })
		case "html":
			r = readSafe(func() (xsel.Cursor, error) { return xsel.ReadHtml(strings.NewReader(text)) })
		case "json":
			r = readSafe(func() (xsel.Cursor, error) { return xsel.ReadJson(strings.NewReader(text)) })
		}
		switch {
		case r.panic != nil:
			problem("panic", "Read"+kind, text, fmt.Sprint(r.panic))
		case r.err == nil && (r.root == nil || reflect.ValueOf(r.root).IsNil()):
			problem("nil-nil", "Read"+kind, text, "nil cursor with nil error")
		case r.err == nil:
			rep.Nontrivial++
			// a tree that was returned must be queryable
			gr, _ := xsel.BuildExpr("count(//node() | //@* | //namespace::*) + string-length(string(/))")
			if o := execSafe(r.root, &gr, nil); o.panic != nil || o.err != nil {
				problem("panic", "Exec-after-Read"+kind, text, fmt.Sprint(o.panic, o.err))
			}
		}
	}
	xmlSeeds := []string{`<?xml version="1.0" encoding="UTF-8"?><r xmlns="u" xmlns:p="v" p:a="1"><a>x<![CDATA[y]]>&amp;</a><!--c--><?t d?><p:b xmlns=""/></r>`,
		`<a><b x='1'>t</b><b/></a>`, `<!DOCTYPE r [<!ENTITY e "v">]><r>&e;</r>`, `<?xml version="1.0" encoding="ISO-8859-1"?><r>` + "\xe9" + `</r>`}
	htmlSeeds := []string{`<!DOCTYPE html><html><head><title>t</title></head><body><p class=a>x<b>y</p><svg xmlns:xlink="l"><a xlink:href="#"/></svg><!--c--></body></html><!--t-->`,
		`<!doctype html><table><tr><td>1<td>2</table><select><option>a`, `<html><p>no doctype</html>`, ``}
	jsonSeeds := []string{`{"a": [1, 2.5e3, {"b": null}], "": true, "#obj": "x"} [] "s" 1`, `[[[[]]]]`, `{"a":{"a":{"a":{}}}}`, `nul`, `1 2 3`}
	for i := 0; i < n; i++ {
		switch k := i % 10; {
		case k < 4: // expressions: rendered well-typed ASTs, then mutated
			e := g.Any(2)
			text, err := Render(e, Style{Abbrev: rng.Intn(2) == 0, Space: rng.Intn(3), Rng: rng})
			if err != nil {
				continue
			}
			if k < 2 {
				tryExpr(text, true)
			} else {
				tryExpr(mutate(rng, text), false)
			}
		case k < 6:
			tryDoc("xml", mutate(rng, xmlSeeds[rng.Intn(len(xmlSeeds))]))
		case k < 8:
			tryDoc("html", mutate(rng, htmlSeeds[rng.Intn(len(htmlSeeds))]))
		case k < 9:
			tryDoc("json", mutate(rng, jsonSeeds[rng.Intn(len(jsonSeeds))]))
		default: // Unmarshal with arbitrary targets
			b := docs[rng.Intn(len(docs))]
			var res xsel.Result = xsel.NodeSet{b.Root}
			if rng.Intn(3) == 0 {
				res = []xsel.Result{xsel.Number(1), xsel.String("s"), xsel.Bool(true), xsel.NodeSet{}, nil}[rng.Intn(5)]
			}
			type T struct {
				A string `xsel:"//*"`
				B []int  `xsel:"//text()"`
				c int    `xsel:"1"`
				D *T     `xsel:"*"`
				E map[string]int
				F [2]int `xsel:"1"`
			}
			// fields and elements of DEFINED scalar types (time.Duration, a named string): filled or refused with an error
			type label string
			type D struct {
				W time.Duration  `xsel:"count(//*)"`
				L label          `xsel:"name(/*)"`
				P *time.Duration `xsel:"1"`
				S []label        `xsel:"//*"`
			}
			var nilT *T
			var pp **T
			var iface any = &T{}
			targets := []any{&D{}, &[]D{}, &[]label{}, &[]time.Duration{}, nil, 3, "s", T{}, &T{}, nilT, pp, &pp, &iface, []int{}, &[]int{}, &[][]int{}, &[]*T{}, map[string]int{}, &map[string]int{}, make(chan int), func() {}, &struct{}{}, new(int), &[]chan int{}, &[]T{}, &[3]int{}}
			t := targets[rng.Intn(len(targets))]
			desc := fmt.Sprintf("Unmarshal(%T into %T)", res, t)
			count(desc)
			func() {
				defer func() {
					if r := recover(); r != nil {
						problem("panic", "Unmarshal", desc, fmt.Sprint(r))
					}
				}()
				if err := xsel.Unmarshal(res, t, opts(b)...); err == nil {
					rep.Nontrivial++
				}
			}()
		}
	}
	// adversarial shapes: deep nesting and long chains (stack usage of parser and evaluator)
	depths := []int{50, 300, 800}
	if os.Getenv("VERIF_TIER") == "thorough" {
		depths = []int{50, 400, 2000, 4000}
	}
	if !adversarial {
		depths = nil
	}
	// degenerate bindings ($z is bound to nil, $e to a nil node-set, $u is unbound)
	for _, t := range []string{"$z", "($z)", "$z + 1", "string($z)", "//*[. = $z]", "$z | $v", "count($z)", "$z/a", "$z[1]", "not($z)", "f($z)", "-$z", "$z = $z",
		"$e", "$e/a", "$e[1]", "boolean($e)", "string($e)", "$e | $e", "sum($e)", "$u", "$p:z", "f($e, $z)", "concat($z, 'a')", "//*[$z]", "$v[$z]", "lang($z)"} {
		tryExpr(t, false)
	}
	for _, t := range []string{"boom()", "boom() + 1", "//*[boom()]", "string(boom())", "boom(1)", "count(//*[boom() = 1])"} {
		tryExpr(t, false)
	}
	// the name functions on every kind of first node, the root included (well-typed: never an internal failure)
	for _, t := range []string{"name(/)", "local-name(/)", "namespace-uri(/)", "//*[name(..) = 'x']", "name(ancestor::node()[last()])", "local-name(//text()/..)",
		"name(//comment())", "name(//processing-instruction())", "namespace-uri(//@*)", "name(//namespace::*)", "//*[local-name(/) = '']"} {
		tryExpr(t, true)
	}
	for _, t := range []string{"translate('Zürich', 'abcdefghijklmnopqrstuvwxyz', 'ABCDEFGHIJKLMNOPQRSTUVWXYZ')", "translate('中文😀', 'a', 'b')", "contains('café', 'é')",
		"substring('12345', 3, -1)", "substring('añb', 2, -5)", "substring('😀x', 2, 0 div 0)", "substring-before('é', '')", "normalize-space(' é ')",
		"starts-with('😀', '')", "string-length(translate('é́', 'e', ''))", "substring('12345', 1.5, -0.5)", "substring('', 1, 1 div 0)"} {
		tryExpr(t, true)
	}
	// positions no list can have, comparisons of node-sets without a single number, predicates after a literal position
	for _, t := range []string{"//*[10000000000000000000]", "(//*)[18446744073709551616]", "//*[1e19]", "//node()[9223372036854775808][1]", "ancestor::*[99999999999999999999999999]",
		"//*[1][10000000000000000000]", "//*[0.5]", "//*[-1]", "//* > //text()", "//comment() >= //processing-instruction()", "//@* < //namespace::*", "//*[. > ..]",
		"//text()[. <= //comment()]", "starts-with('x', 'x')", "starts-with(name(/*), name(/*))", "contains('', '')", "substring-after('a', 'a')", "//*[1][@*][1]"} {
		tryExpr(t, true)
	}
	// strings that are almost numerals: conversions are total and never fail internally
	for _, lit := range []string{"-", " - ", ".", "-.", "+", "", " ", "--1", "1-", "-\t", "1.2.3", "٣", "- 1", "1e", "0x", "-0", ".-"} {
		for _, tmpl := range []string{"number('%s')", "'%s' * 2", "-'%s'", "'%s' < 1", "sum(//*) + '%s'", "round('%s')", "substring('abc', '%s')", "//*['%s' + 1]", "string(number('%s'))"} {
			tryExpr(fmt.Sprintf(tmpl, lit), true)
		}
	}
	for _, depth := range depths {
		tryExpr(strings.Repeat("(", depth)+"1"+strings.Repeat(")", depth), true)
		tryExpr(strings.Repeat("-", depth)+"1", true)
		tryExpr("a"+strings.Repeat("/a", depth), true)
		tryExpr("1"+strings.Repeat("+1", depth), true)
		tryExpr("a"+strings.Repeat("[a", depth)+strings.Repeat("]", depth), true)
		tryExpr(strings.Repeat("count(", depth)+"/"+strings.Repeat(")", depth), false)
		tryDoc("xml", strings.Repeat("<a>", depth)+strings.Repeat("</a>", depth))
		tryDoc("json", strings.Repeat("[", depth)+strings.Repeat("]", depth))
		tryDoc("html", "<!DOCTYPE html>"+strings.Repeat("<div>", depth))
	}
	for _, p := range rep.Problems {
		if len(rep.Samples) < 3 {
			rep.Samples = append(rep.Samples, p.Input)
		}
	}
	return rep
}

func init() {
	commands["fuzz-one"] = func(a *cmdArgs) int {
		b, err := os.ReadFile(a.rest[0])
		if err != nil {
			return 2
		}
		var p fuzzProblem
		json.Unmarshal(b, &p)
		if p.Kind == "process-fatal" || p.Entry == "batch" {
			fmt.Println("re-run the batch named in the file:", p.Input)
			return 2
		}
		status := 0
		check := func(what string, f func() (any, error)) {
			defer func() {
				if r := recover(); r != nil {
					fmt.Println("REPRODUCED panic in", what, ":", r)
					status = 1
				}
			}()
			v, err := f()
			if v == nil && err == nil {
				fmt.Println("REPRODUCED nil, nil from", what)
				status = 1
			}
		}
		switch p.Entry {
		case "BuildExpr", "Exec", "ExecAs*":
			check("BuildExpr", func() (any, error) { g, err := xsel.BuildExpr(p.Input); return &g, err })
			if g, err := xsel.BuildExpr(p.Input); err == nil {
				d, _ := Build((&Gen{r: rand.New(rand.NewSource(1))}).Doc(12))
				check("Exec", func() (any, error) { r, err := xsel.Exec(d.Root, &g); return r, err })
			}
		case "Readxml":
			check("ReadXml", func() (any, error) { c, err := xsel.ReadXml(strings.NewReader(p.Input)); return c, err })
		case "Readhtml":
			check("ReadHtml", func() (any, error) { c, err := xsel.ReadHtml(strings.NewReader(p.Input)); return c, err })
		case "Readjson":
			check("ReadJson", func() (any, error) { c, err := xsel.ReadJson(strings.NewReader(p.Input)); return c, err })
		default:
			fmt.Println("no single-input replay for", p.Entry)
			return 2
		}
		return status
	}
	commands["fuzz-child"] = func(a *cmdArgs) int {
		rep := fuzzBatch(seedFromEnv()*1000003+int64(a.sub), a.n, a.sub%1000 == 0)
		json.NewEncoder(os.Stdout).Encode(rep)
		return 0
	}
	// parent: run batches in child processes, contain crashes and hangs
	commands["fuzz"] = func(a *cmdArgs) int {
		total := &fuzzReport{Kinds: map[string]int{}}
		batches := a.workers
		per := a.n / batches
		type res struct {
			rep *fuzzReport
			err string
			sub int
		}
		ch := make(chan res, batches)
		for bI := 0; bI < batches; bI++ {
			go func(sub int) {
				cmd := exec.Command(os.Args[0], "fuzz-child", "-n", fmt.Sprint(per), "-sub", fmt.Sprint(sub))
				done := make(chan struct{})
				var out []byte
				var err error
				go func() { out, err = cmd.Output(); close(done) }()
				select {
				case <-done:
				case <-time.After(15 * time.Minute):
					cmd.Process.Kill()
					<-done
					ch <- res{err: "hang: batch did not terminate within 15 minutes", sub: sub}
					return
				}
				if err != nil {
					msg := err.Error()
					if ee, ok := err.(*exec.ExitError); ok {
						msg += ": " + string(ee.Stderr[:min(len(ee.Stderr), 3000)])
					}
					kind := "harness-crash: "
					if strings.Contains(msg, "ChrisTrenkamp/xsel") || strings.Contains(msg, "stack overflow") || strings.Contains(msg, "fatal error") || strings.Contains(msg, "signal: killed") {
						kind = "process-fatal: "
					}
					ch <- res{err: kind + msg, sub: sub}
					return
				}
				var r fuzzReport
				if e := json.Unmarshal(out, &r); e != nil {
					ch <- res{err: "undecodable batch output", sub: sub}
					return
				}
				ch <- res{rep: &r, sub: sub}
			}(bI + a.sub*1000)
		}
		for bI := 0; bI < batches; bI++ {
			r := <-ch
			if strings.HasPrefix(r.err, "harness-crash") {
				fmt.Fprintln(os.Stderr, r.err)
				return 2
			}
			if r.err != "" {
				total.Kinds["process-fatal"]++
				total.Problems = append(total.Problems, fuzzProblem{Kind: "process-fatal", Entry: "batch", Input: fmt.Sprintf("fuzz-child -n %d -sub %d (VERIF_SEED=%d)", per, r.sub, seedFromEnv()), Detail: r.err})
				continue
			}
			total.Inputs += r.rep.Inputs
			total.Distinct += r.rep.Distinct
			total.Nontrivial += r.rep.Nontrivial
			for k, v := range r.rep.Kinds {
				total.Kinds[k] += v
			}
			total.Problems = append(total.Problems, r.rep.Problems...)
			total.Samples = append(total.Samples, r.rep.Samples...)
		}
		writeJSON(a.report, total)
		return 0
	}
}
