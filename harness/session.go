package main

import (
	"bytes"
	"encoding/json"
	"fmt"
	"hash/fnv"
	"math/rand"
	"os"
	"sort"
	"strconv"
	"strings"
	"sync/atomic"

	"github.com/ChrisTrenkamp/xsel"
	"github.com/ChrisTrenkamp/xsel/store"
)

// C13 / C14: sessions - a client that keeps node-sets (Go slices, with their aliasing) across
// calls.  Every call is logged at its return together with a snapshot of everything the client
// holds; the frame condition is judged by Trace_Xsel.

var docHandle int64

type Session struct {
	b    *Built
	h    int
	held []xsel.NodeSet
	buf  bytes.Buffer
	enc  *json.Encoder
}

// treeFaultEvent is the trace event for a document whose tree cannot be built as the document (nil if it can)
func treeFaultEvent(d Doc, h int, b *Built, err error) map[string]any {
	switch {
	case err != nil:
		return map[string]any{"ev": "treefault", "h": h, "doc": d, "faults": []string{"CreateInMemory failed on a conforming event stream: " + err.Error()}}
	case len(b.Faults) > 3:
		return map[string]any{"ev": "treefault", "h": h, "doc": d, "faults": b.Faults[:3]}
	case len(b.Faults) > 0:
		return map[string]any{"ev": "treefault", "h": h, "doc": d, "faults": b.Faults}
	}
	return nil
}

func newSession(d Doc) (*Session, error) {
	b, err := Build(d)
	if ev := treeFaultEvent(d, 0, b, err); ev != nil && traceOut != nil {
		// the store misbuilt the tree: the trace specification rejects this event, and no session is run on it
		writeTrace(ev)
		return nil, fmt.Errorf("tree fault: %v", ev["faults"])
	}
	if err != nil {
		return nil, err
	}
	s := &Session{b: b, h: int(atomic.AddInt64(&docHandle, 1))}
	s.enc = json.NewEncoder(&s.buf)
	s.enc.Encode(map[string]any{"ev": "doc", "h": s.h, "doc": d})
	return s, nil
}

func docDigest(root store.Cursor) string {
	h := fnv.New64a()
	var walk func(c store.Cursor, depth int)
	walk = func(c store.Cursor, depth int) {
		k, sp, lo, v := nodeFields(c.Node())
		fmt.Fprintf(h, "%d|%s|%v|%v|%v|%d|%d,%d,%d;", depth, k, sp, lo, v, c.Pos(), len(c.Namespaces()), len(c.Attributes()), len(c.Children()))
		if depth > 200 {
			return
		}
		for _, x := range c.Namespaces() {
			walk(x, depth+1)
		}
		for _, x := range c.Attributes() {
			walk(x, depth+1)
		}
		for _, x := range c.Children() {
			walk(x, depth+1)
		}
	}
	walk(root, 0)
	return fmt.Sprintf("%016x", h.Sum64())
}

// bindingsDigest: keys of the three binding maps, the variables' values (node-sets element by element) and
// the identity of each function
func bindingsDigest(cs *xsel.ContextSettings) string {
	var parts []string
	for k, v := range cs.NamespaceDecls {
		parts = append(parts, "n|"+k+"|"+v)
	}
	for k, v := range cs.Variables {
		d := fmt.Sprintf("v|%s|%s|%T|", k.Space, k.Local, v)
		if ns, ok := v.(xsel.NodeSet); ok {
			for _, c := range ns {
				d += fmt.Sprintf("%p,", c)
			}
		} else {
			d += fmt.Sprint(v)
		}
		parts = append(parts, d)
	}
	for k, f := range cs.FunctionLibrary {
		parts = append(parts, fmt.Sprintf("f|%s|%s|%p", k.Space, k.Local, f))
	}
	sort.Strings(parts)
	h := fnv.New64a()
	for _, p := range parts {
		h.Write([]byte(p))
		h.Write([]byte{0})
	}
	return fmt.Sprintf("%d:%016x", len(parts), h.Sum64())
}

func (s *Session) heldSnapshot() [][]int {
	out := make([][]int, len(s.held))
	for i, ns := range s.held {
		ids := make([]int, len(ns))
		for j, c := range ns {
			ids[j] = s.b.idOf(c)
		}
		out[i] = ids
	}
	return out
}

// exec runs e with $v / $w bound to the held node-sets themselves (not copies)
func (s *Session) exec(ctx int, e *Expr, text string, v, w int, extra *Env) outcome {
	env := &Env{Ns: NsMap{"p": uriU1, "q": uriU2}}
	if extra != nil {
		env = extra
	}
	st, _ := s.b.settings(env, nil)
	tenv := traceEnv(env)
	vars := []any{}
	for _, ev := range env.Vars {
		vars = append(vars, ev)
	}
	bind := func(name string, k int) {
		if k > 0 {
			st = append(st, xsel.WithVariable(name, s.held[k-1]))
			ids := s.heldSnapshot()[k-1]
			vars = append(vars, map[string]any{"sp": []string{}, "lo": ch(name), "val": map[string]any{"t": "ns", "v": ids}})
		}
	}
	bind("v", v)
	bind("w", w)
	tenv["vars"] = vars
	// the bindings are handed over as maps the CALLER owns (a ContextApply may install its own maps, as the
	// command-line tool does): the three maps must be the same afterwards
	owned := xsel.ContextSettings{NamespaceDecls: map[string]string{}, FunctionLibrary: map[xsel.XmlName]xsel.Function{}, Variables: map[xsel.XmlName]xsel.Result{}}
	for _, f := range st {
		f(&owned)
	}
	st = []xsel.ContextApply{func(cs *xsel.ContextSettings) {
		cs.NamespaceDecls, cs.FunctionLibrary, cs.Variables = owned.NamespaceDecls, owned.FunctionLibrary, owned.Variables
	}}
	envPre := bindingsDigest(&owned)
	c := compile(text)
	var o outcome
	if c.err != nil {
		o = outcome{err: fmt.Errorf("BuildExpr: %v", c.err)}
	} else {
		o = execSafe(s.b.ByID[ctx], &c.g, st)
	}
	// the same compiled expression, the same node, the same bindings once more: the same result (bit for bit)
	again := true
	if c.err == nil {
		o2 := execSafe(s.b.ByID[ctx], &c.g, st)
		j1, _ := json.Marshal(obsJSON(s.b, o))
		j2, _ := json.Marshal(obsJSON(s.b, o2))
		again = string(j1) == string(j2)
	}
	envPost := bindingsDigest(&owned)
	if ns, ok := o.res.(xsel.NodeSet); ok && o.err == nil && o.panic == nil {
		s.held = append(s.held, ns)
	}
	s.enc.Encode(map[string]any{"ev": "exec", "h": s.h, "ctx": ctx, "env": tenv, "e": e, "text": text, "res": obsJSON(s.b, o), "vh": v, "wh": w,
		"held": s.heldSnapshot(), "dochash": docDigest(s.b.Root), "envpre": envPre, "envpost": envPost, "again": again})
	return o
}

func (s *Session) reslice(from, lo, hi int) {
	s.held = append(s.held, s.held[from-1][lo:hi])
	s.enc.Encode(map[string]any{"ev": "reslice", "from": from, "lo": lo, "hi": hi, "held": s.heldSnapshot(), "dochash": docDigest(s.b.Root)})
}

func (s *Session) flush() {
	traceOutMu.Lock()
	traceOut.Write(s.buf.Bytes())
	traceOutMu.Unlock()
	s.buf.Reset()
}

type histStep struct {
	Op  string `json:"op"`
	Thr int    `json:"thr"`
	E   int    `json:"e"`
	V   int    `json:"v"`
	W   int    `json:"w"`
	H   int    `json:"h"`
	Lo  int    `json:"lo"`
	Hi  int    `json:"hi"`
	Ord string `json:"ord"`
}

func init() {
	// direction A: histories generated by TLC from the Xsel system specification
	otherFamilies["C13."] = func(line string, rep *Report, fnd *Findings) {
		var gl struct {
			Doc   Doc        `json:"doc"`
			Exprs []Expr     `json:"exprs"`
			Steps []histStep `json:"steps"`
		}
		if err := json.Unmarshal([]byte(line), &gl); err != nil {
			rep.infra("bad C13 line: " + err.Error())
			return
		}
		if traceOut == nil {
			rep.infra("C13 lines need -out")
			return
		}
		// VERIF_HIST_SAMPLE = k > 1: only every k-th history (by hash of the line and the seed) is executed and recorded;
		// the model checker has still visited them all
		if k, err := strconv.Atoi(os.Getenv("VERIF_HIST_SAMPLE")); err == nil && k > 1 {
			if (hash64([]byte(line))+uint64(seedFromEnv()))%uint64(k) != 0 {
				rep.mu.Lock()
				rep.Skipped++
				rep.mu.Unlock()
				return
			}
		}
		s, err := newSession(gl.Doc)
		if err != nil {
			if !strings.HasPrefix(err.Error(), "tree fault") {
				rep.infra("session: " + err.Error())
			}
			return
		}
		for _, st := range gl.Steps {
			switch st.Op {
			case "exec":
				e := &gl.Exprs[st.E-1]
				text, err := Render(e, Style{Abbrev: true, Space: 1})
				if err != nil {
					rep.infra("render: " + err.Error())
					return
				}
				if st.V > len(s.held) || st.W > len(s.held) {
					rep.infra("history refers to a node-set the real run does not hold (an earlier call failed)")
					s.flush()
					return
				}
				o := s.exec(1, e, text, st.V, st.W, nil)
				if ns, ok := o.res.(xsel.NodeSet); ok && len(ns) > 1 && (ns[0].Pos() < ns[1].Pos()) != (st.Ord != "dsc") {
					// the history assumes the other admissible result order: not realisable by this implementation
					s.buf.Reset()
					rep.mu.Lock()
					rep.Skipped++
					rep.mu.Unlock()
					return
				}
			case "reslice":
				if st.H > len(s.held) || st.Hi > len(s.held[st.H-1]) {
					rep.infra("history reslices a node-set the real run does not hold")
					s.flush()
					return
				}
				s.reslice(st.H, st.Lo, st.Hi)
			}
		}
		s.flush()
		rep.mu.Lock()
		rep.Cases += len(gl.Steps)
		rep.Judged += len(gl.Steps)
		rep.mu.Unlock()
	}
	// re-execute a recorded session (replay file of a frame violation)
	commands["session-replay"] = func(a *cmdArgs) int {
		b, err := os.ReadFile(a.rest[0])
		if err != nil {
			return 2
		}
		var rc struct {
			Lines []struct {
				Ev   string `json:"ev"`
				Doc  Doc    `json:"doc"`
				Ctx  int    `json:"ctx"`
				E    *Expr  `json:"e"`
				Text string `json:"text"`
				Vh   int    `json:"vh"`
				Wh   int    `json:"wh"`
				Type *TypeD `json:"type"`
				Form string `json:"form"`
				From int    `json:"from"`
				Lo   int    `json:"lo"`
				Hi   int    `json:"hi"`
			} `json:"lines"`
		}
		if err := json.Unmarshal(b, &rc); err != nil || len(rc.Lines) == 0 {
			return 2
		}
		if err := openTraceOut(a.out); err != nil {
			return 2
		}
		defer closeTraceOut()
		var s *Session
		for _, l := range rc.Lines {
			switch l.Ev {
			case "doc":
				s, err = newSession(l.Doc)
				if err != nil {
					return 2
				}
			case "exec":
				if l.Vh > len(s.held) || l.Wh > len(s.held) {
					break
				}
				s.exec(l.Ctx, l.E, l.Text, l.Vh, l.Wh, nil)
			case "unmarshal":
				s.doUnmarshal(l.Ctx, l.E, l.Text, l.Type, l.Form)
			case "reslice":
				if l.From <= len(s.held) && l.Hi <= len(s.held[l.From-1]) {
					s.reslice(l.From, l.Lo, l.Hi)
				}
			}
		}
		s.flush()
		return 0
	}
	// direction B: seeded random long sessions
	commands["session-record"] = func(a *cmdArgs) int {
		if err := openTraceOut(a.out); err != nil {
			fmt.Fprintln(os.Stderr, err)
			return 2
		}
		defer closeTraceOut()
		rng := rand.New(rand.NewSource(seedFromEnv()*2654435761 + int64(a.sub)))
		g := &Gen{r: rng, nsVars: []string{"v", "w"}}
		events := 0
		for events < a.n {
			s, err := newSession(g.Doc(8 + rng.Intn(20)))
			if err != nil {
				events++
				continue
			}
			nsteps := 20 + rng.Intn(30)
			// a few broad node-sets to start from (one from a reverse axis)
			for _, st := range [][]Step{{{Ax: "descendant", Test: &Test{K: "any"}}}, {{Ax: "descendant", Test: &Test{K: "node"}}},
				{{Ax: "descendant", Test: &Test{K: "any"}}, {Ax: "preceding-sibling", Test: &Test{K: "node"}}}} {
				e := &Expr{Op: "path", Abs: true, Steps: st}
				text, _ := Render(e, Style{})
				s.exec(1, e, text, 0, 0, nil)
				events++
			}
			pick := func() int { // prefer non-empty held node-sets
				for try := 0; try < 4; try++ {
					k := 1 + rng.Intn(len(s.held))
					if len(s.held[k-1]) > 0 {
						return k
					}
				}
				return 1 + rng.Intn(len(s.held))
			}
			for i := 0; i < nsteps; i++ {
				if rng.Intn(8) == 0 {
					s.unmarshalTraced(g, 1+rng.Intn(len(s.b.Doc)))
					events++
					continue
				}
				if len(s.held) > 0 && rng.Intn(4) == 0 {
					from := pick()
					n := len(s.held[from-1])
					lo := rng.Intn(n + 1)
					hi := lo + rng.Intn(n-lo+1)
					if rng.Intn(2) == 0 {
						lo = 0 // a prefix keeps the spare capacity of the original
					}
					s.reslice(from, lo, hi)
					events++
					continue
				}
				v, w := 0, 0
				if len(s.held) > 0 {
					v = pick()
					w = pick()
				}
				var e *Expr
				if v > 0 && rng.Intn(3) > 0 {
					// shapes that combine held node-sets
					vv, ww := &Expr{Op: "var", Lo: ch("v")}, &Expr{Op: "var", Lo: ch("w")}
					switch rng.Intn(7) {
					case 0:
						e = bin("union", vv, g.NodeSet(1, false))
					case 1:
						e = bin("union", vv, ww)
					case 2:
						e = bin("union", g.NodeSet(1, false), vv)
					case 3:
						e = &Expr{Op: "filter", Prim: bin("union", vv, ww), Preds: []Expr{*g.pred(1)}}
					case 4:
						e = &Expr{Op: "filter", Prim: vv, Steps: g.steps(1, false)}
					case 5:
						e = call("count", bin("union", bin("union", vv, g.NodeSet(1, false)), ww))
					default:
						e = &Expr{Op: "filter", Prim: vv, Preds: []Expr{*g.pred(1)}}
					}
				} else {
					g.nsVars = nil
					e = g.NodeSet(2, false)
					g.nsVars = []string{"v", "w"}
					v, w = 0, 0
				}
				if !usesVar(e, "v") {
					v = 0
				}
				if !usesVar(e, "w") {
					w = 0
				}
				if (usesVar(e, "v") && v == 0) || (usesVar(e, "w") && w == 0) {
					continue
				}
				text, err := Render(e, Style{Abbrev: rng.Intn(2) == 0, Space: rng.Intn(2)})
				if err != nil {
					continue
				}
				ctx := 1
				if rng.Intn(2) == 0 {
					ctx = 1 + rng.Intn(len(s.b.Doc))
				}
				var extra *Env
				switch rng.Intn(6) {
				case 0:
					// this call binds user functions (one shadowing count()) and other namespace / variable bindings;
					// the next calls, without them, must not see any of it
					extra = &Env{Ns: NsMap{"p": uriU2, "q": uriU1, "z": uriU1},
						Funcs: []EnvFunc{{Sp: []string{}, Lo: ch("count"), Kind: "const", Val: &Val{T: "str", V: mkJSON(ch("user"))}}, {Sp: uriU1, Lo: ch("f"), Kind: "nargs"}},
						Vars:  []EnvVar{{Sp: []string{}, Lo: ch("k"), Val: Val{T: "num", V: mkJSON(Num{C: "fin", S: 1, N: 7, D: 1})}}}}
				case 1:
					// same compiled expression, other value of a plain variable
					extra = &Env{Ns: NsMap{"p": uriU1, "q": uriU2}, Vars: []EnvVar{{Sp: []string{}, Lo: ch("k"), Val: Val{T: "num", V: mkJSON(Num{C: "fin", S: 1, N: int64(1 + rng.Intn(3)), D: 1})}}}}
				}
				if rng.Intn(3) == 0 {
					// expressions whose value depends on those bindings
					kk := &Expr{Op: "var", Lo: ch("k")}
					switch rng.Intn(4) {
					case 0:
						e = call("count", g.NodeSet(1, false))
					case 1:
						e = &Expr{Op: "path", Abs: true, Steps: []Step{{Ax: "descendant", Test: &Test{K: "any"}, Preds: []Expr{*bin("eq", call("position"), kk)}}}}
					case 2:
						e = &Expr{Op: "call", Pre: "z", Lo: ch("f"), Args: []Expr{*kk, *kk}}
					default:
						e = &Expr{Op: "path", Abs: true, Steps: []Step{{Ax: "descendant", Test: &Test{K: "nsany", Pre: "p"}}}}
					}
					v, w = 0, 0
					text, err = Render(e, Style{Space: 1})
					if err != nil {
						continue
					}
				}
				s.exec(ctx, e, text, v, w, extra)
				events++
			}
			s.flush()
		}
		return 0
	}
}

func usesVar(e *Expr, name string) bool {
	if e == nil {
		return false
	}
	if e.Op == "var" && e.Pre == "" && str(e.Lo) == name {
		return true
	}
	if usesVar(e.Prim, name) || usesVar(e.L, name) || usesVar(e.R, name) || usesVar(e.A, name) {
		return true
	}
	for i := range e.Preds {
		if usesVar(&e.Preds[i], name) {
			return true
		}
	}
	for i := range e.Args {
		if usesVar(&e.Args[i], name) {
			return true
		}
	}
	for i := range e.Steps {
		if usesVar(e.Steps[i].Fn, name) {
			return true
		}
		for j := range e.Steps[i].Preds {
			if usesVar(&e.Steps[i].Preds[j], name) {
				return true
			}
		}
	}
	return false
}
