CONSTANTS
  NF <- TNF
  N <- TN
  Conc <- TConc
  Prints <- TPrints
INIT TInit
NEXT TNext
INVARIANTS TypeOK AtMostNRunning WaitGroupCounts TokensCount BlocksIntact
