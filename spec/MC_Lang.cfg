CONSTANTS
  OpenFx = {}
  ElemNames <- L_ElemNames
  AttrNames <- L_AttrNames
  AttrValues <- L_AttrValues
  NsDecls <- N_Comments
  Texts <- L_Texts
  Comments <- L_Comments
  PIs <- N_Comments
  MaxNodes = 5
  MaxDepth = 3
  MaxEvents = 12
  SurplusEnd = FALSE
  Family = "C12l"
INIT Init
NEXT Next
VIEW View
INVARIANTS TypeOK RenamingInvariance NamesByUri NameLaws LangLaws Emit
