------------------------------- MODULE MC_Json ------------------------------
(* C16 model: the value chooser (first the top-level value's shape, then     *)
(* its members) drives the JsonAdapter machine one Pull at a time; TLC       *)
(* checks that the machine refines the documented mapping:                   *)
(*   out is always a prefix of DocEvents(values), equal to it at EOF, and    *)
(*   the stream conforms to the Parser contract.                             *)
(***************************************************************************)
EXTENDS JsonAdapter, Json, TLC

CONSTANTS Depth, Width, EmitOn

Keys == {<<"a">>, <<"b">>, <<>>, <<"a", "sp", "b">>, <<Hash, "o", "b", "j">>}
Scalars == {[t |-> "str", s |-> <<"x">>], [t |-> "str", s |-> <<>>], [t |-> "str", s |-> <<"w2", "sp">>],
            [t |-> "num", n |-> NInt(1)], [t |-> "num", n |-> Rat(-3, 2)], [t |-> "num", n |-> Zero(-1)], [t |-> "num", n |-> NInt(1200)], [t |-> "num", n |-> NInt(1234567)], [t |-> "num", n |-> Rat(1, 8)],
            \* round numbers where the exponent form is the shorter numeral (1e+06, -1e+06, -1.2e+07, 3.0517578125e-05) and where it is not
            [t |-> "num", n |-> NInt(1000000)], [t |-> "num", n |-> NInt(-1000000)], [t |-> "num", n |-> NInt(100000)], [t |-> "num", n |-> NInt(-12000000)],
            [t |-> "num", n |-> NInt(1230000)], [t |-> "num", n |-> Rat(1, 32768)], [t |-> "num", n |-> Rat(-1, 32768)], [t |-> "num", n |-> NInt(-2000000000)],
            [t |-> "bool", b |-> TRUE], [t |-> "bool", b |-> FALSE], [t |-> "null"]}
ASSUME /\ ShortestNumeral(NInt(1000000)) = <<"1", "e", "+", "0", "6">> /\ ShortestNumeral(NInt(-12000000)) = <<"-", "1", ".", "2", "e", "+", "0", "7">>
       /\ ShortestNumeral(NInt(1230000)) = <<"1", "2", "3", "0", "0", "0", "0">> /\ ShortestNumeral(NInt(100000)) = <<"1", "0", "0", "0", "0", "0">>
       /\ ShortestNumeral(Rat(1, 8)) = <<"0", ".", "1", "2", "5">> /\ ShortestNumeral(Rat(-3, 2)) = <<"-", "1", ".", "5">>
       /\ ShortestNumeral(Rat(1, 32768)) = <<"3", ".", "0", "5", "1", "7", "5", "7", "8", "1", "2", "5", "e", "-", "0", "5">>
RECURSIVE SeqsLE(_, _)
SeqsLE(S, n) == IF n = 0 THEN {<<>>} ELSE LET p == SeqsLE(S, n - 1) IN p \cup {Append(s, x) : s \in p, x \in S}
Leaf == {[t |-> "str", s |-> <<"x">>], [t |-> "num", n |-> Rat(-3, 2)], [t |-> "null"]}
Arrs(S) == {[t |-> "arr", a |-> s] : s \in SeqsLE(S, Width)}
Objs(S) == {[t |-> "obj", m |-> s] : s \in SeqsLE({[k |-> k, v |-> v] : k \in {<<"a">>, <<"b">>}, v \in S}, Width)}
V1 == Arrs(Leaf) \cup Objs(Leaf)
\* representatives of depth 1 used inside deeper values: empty and non-empty containers of both kinds
V1c == {[t |-> "null"], [t |-> "str", s |-> <<"x">>], [t |-> "arr", a |-> <<>>], [t |-> "arr", a |-> <<[t |-> "null"], [t |-> "str", s |-> <<"x">>]>>],
        [t |-> "obj", m |-> <<>>], [t |-> "obj", m |-> <<[k |-> <<"a">>, v |-> [t |-> "str", s |-> <<"x">>]]>>],
        [t |-> "obj", m |-> <<[k |-> <<"a">>, v |-> [t |-> "arr", a |-> <<>>]], [k |-> <<"a">>, v |-> [t |-> "null"]]>>]}   \* duplicate key
V2 == Arrs(V1c) \cup Objs(V1c)
V2c == {[t |-> "arr", a |-> <<[t |-> "arr", a |-> <<>>]>>], [t |-> "obj", m |-> <<[k |-> <<"b">>, v |-> [t |-> "obj", m |-> <<>>]]>>],
        [t |-> "arr", a |-> <<[t |-> "obj", m |-> <<[k |-> <<"a">>, v |-> [t |-> "arr", a |-> <<[t |-> "null"]>>]]>>], [t |-> "str", s |-> <<"x">>]>>]}
V3 == Arrs(V2c \cup {[t |-> "null"]}) \cup Objs(V2c \cup {[t |-> "null"]})
OddKeys == {[t |-> "obj", m |-> <<[k |-> k, v |-> [t |-> "null"]]>>] : k \in Keys}
\* strings and keys that spell JSON's own tokens: they are text like any other string
TokStr == {<<"{">>, <<"}">>, <<"[">>, <<"]">>, <<",">>, <<":">>, <<"\"">>, <<"\\">>, <<"n","u","l","l">>, <<"t","r","u","e">>, <<"1">>}
S_(x) == [t |-> "str", s |-> x]
TokLike == {S_(x) : x \in TokStr}
           \cup {[t |-> "obj", m |-> <<[k |-> k, v |-> S_(<<"x">>)]>>] : k \in TokStr}
           \cup {[t |-> "arr", a |-> <<S_(<<"[">>), S_(<<"]">>)>>], [t |-> "arr", a |-> <<S_(<<"{">>), [t |-> "arr", a |-> <<>>], S_(<<"}">>)>>],
                 [t |-> "obj", m |-> <<[k |-> <<"o">>, v |-> S_(<<"{">>)], [k |-> <<"c">>, v |-> S_(<<"}">>)]>>],
                 [t |-> "obj", m |-> <<[k |-> <<"[">>, v |-> S_(<<"]">>)], [k |-> <<"}">>, v |-> [t |-> "obj", m |-> <<>>]]>>],
                 [t |-> "arr", a |-> <<S_(<<>>), S_(<<"a">>), S_(<<>>), S_(<<"b">>)>>],
                 \* numbers that compare equal but are different doubles, in one document
                 [t |-> "arr", a |-> <<[t |-> "num", n |-> Zero(1)], [t |-> "num", n |-> Zero(-1)], [t |-> "num", n |-> Zero(1)]>>],
                 [t |-> "arr", a |-> <<[t |-> "num", n |-> Zero(-1)], [t |-> "num", n |-> Zero(1)]>>],
                 [t |-> "num", n |-> Zero(1)]}
Values(d) == Scalars \cup OddKeys \cup TokLike \cup V1 \cup (IF d >= 2 THEN V2 ELSE {}) \cup (IF d >= 3 THEN V3 ELSE {})

VARIABLES vals,   \* the top-level values of the text
          stack, toks, out, eof
vars == <<vals, stack, toks, out, eof>>

Tops == Values(Depth)
Init == /\ vals \in {<<v>> : v \in Tops} \cup {<<v, w>> : v \in Values(1), w \in {[t |-> "num", n |-> NInt(1)], [t |-> "arr", a |-> <<>>], [t |-> "obj", m |-> <<>>]}} \cup {<<>>}
        /\ stack = <<>> /\ toks = DocTokens(vals) /\ out = <<>> /\ eof = FALSE
Pull == /\ ~eof
        /\ LET r == PullJson(stack, toks) IN
           /\ stack' = r.stack /\ toks' = r.toks
           /\ IF r.ev.k = "eof" THEN eof' = TRUE /\ out' = out ELSE eof' = FALSE /\ out' = Append(out, r.ev)
        /\ UNCHANGED vals
Next == Pull

Want == DocEvents(vals)
PrefixOK == Len(out) <= Len(Want) /\ out = SubSeq(Want, 1, Len(out))
CompleteAtEOF == eof => (out = Want /\ stack = <<>>)
ContractOK == Conforms(out)
StackBounded == Len(stack) <= Depth + 1
Emit == (EmitOn /\ eof) => PrintT(ToJson([fam |-> "C16.json", vals |-> vals, evs |-> Want, doc |-> TreeOf(Want)]))
=============================================================================
