------------------------------ MODULE Unmarshal -----------------------------
(* C19: xsel.Unmarshal as a function of (Go type descriptor, how the target  *)
(* is passed, query result).                                                 *)
(*                                                                          *)
(* Types  [k |-> "prim", p |-> "string" | "bool" | "int" | "int8" | ... ]    *)
(*        [k |-> "ptr", e |-> T]  [k |-> "slice", e |-> T]                    *)
(*        [k |-> "struct", f |-> Seq([tag |-> Expr or [op |-> "none"], exported |-> BOOLEAN, emb |-> BOOLEAN, t |-> T])] *)
(*        [k |-> "map"] [k |-> "array"] [k |-> "chan"] [k |-> "iface"] [k |-> "func"] *)
(* Forms  "ptr" (a non-nil pointer to a T value) | "nonptr" | "nilptr" | "nil" *)
(* Filled values  [k |-> "str", v] [k |-> "bool", v] [k |-> "num", v]         *)
(*        [k |-> "list", v |-> Seq, rev |-> BOOLEAN (the elements may also be  *)
(*        in the reverse order)] [k |-> "rec", f |-> Seq] [k |-> "keep"]      *)
(*        (an untagged field: left untouched) or [t |-> "err", why]           *)
(***************************************************************************)
EXTENDS XPath

Prim(p) == [k |-> "prim", p |-> p]
Ptr(t) == [k |-> "ptr", e |-> t]
Slice(t) == [k |-> "slice", e |-> t]
Struct(fs) == [k |-> "struct", f |-> fs]
\* a struct type DECLARED under a name (Go: type Item struct{...} inside a function): what is filled depends on the type - its
\* fields and tags - never on the name, which several declared types may share
Declared(n, fs) == [k |-> "struct", f |-> fs, n |-> n]
Field(tag, t) == [tag |-> tag, exported |-> TRUE, emb |-> FALSE, t |-> t]
Untagged(t) == [tag |-> [op |-> "none"], exported |-> TRUE, emb |-> FALSE, t |-> t]
Hidden(tag, t) == [tag |-> tag, exported |-> FALSE, emb |-> FALSE, t |-> t]
\* an EMBEDDED (anonymous) member: for Unmarshal it is one field of the struct like any other - filled from its own tag when it has
\* one, left alone when it has none; the fields Go promotes from it are NOT fields of the outer struct (FillStruct never looks at emb)
Embedded(tag, t) == [tag |-> tag, exported |-> TRUE, emb |-> TRUE, t |-> t]
EmbeddedUntagged(t) == [tag |-> [op |-> "none"], exported |-> TRUE, emb |-> TRUE, t |-> t]
\* a RECURSIVE declared type (Go: type Dir struct { Id string `xsel:"@id"`; Dirs []Dir `xsel:"child::*"` }): inside its own
\* definition the type is referred to by name; filling it ends with the document, not with the type
Ref(n) == [k |-> "ref", n |-> n]
DirT == Declared("Dir", << Field([op |-> "path", abs |-> FALSE, steps |-> <<[ax |-> "attribute", test |-> [k |-> "name", pre |-> "", lo |-> <<"i","d">>], preds |-> <<>>]>>], Prim("string")),
                           Field([op |-> "path", abs |-> FALSE, steps |-> <<[ax |-> "child", test |-> [k |-> "any"], preds |-> <<>>]>>], Slice(Ref("Dir"))) >>)
RefType(n) == IF n = "Dir" THEN DirT ELSE [k |-> "unknown-ref"]
RECURSIVE StripPtr(_)
StripPtr(t) == IF t.k = "ptr" THEN StripPtr(t.e) ELSE t

UErr(w) == [t |-> "err", why |-> w]
IsUErr(g) == "t" \in DOMAIN g
IntRange(p) == CASE p = "int8" -> <<-128, 127>> [] p = "uint8" -> <<0, 255>> [] p = "int16" -> <<-32768, 32767>> [] p = "uint16" -> <<0, 65535>>
                 [] p \in {"uint", "uint32", "uint64"} -> <<0, 1000000>> [] OTHER -> <<-1000000, 1000000>>
PrimOf(d, p, r) ==
  IF p = "string" THEN (IF IsUnkStr(ToStr(d, r)) THEN UErr("unk") ELSE [k |-> "str", v |-> ToStr(d, r)])
  ELSE IF p = "bool" THEN LET b == ToBoolV(d, r) IN IF IsErr(b) THEN UErr("unk") ELSE [k |-> "bool", v |-> b.v]
  ELSE LET n == ToNum(d, r) IN
       IF p \in {"float64", "float32"} THEN (IF Exact(n) /\ ~IsUnk(n) THEN [k |-> "num", v |-> n] ELSE UErr("unk"))
       \* integer kinds: only values exactly representable in the field type are determined
       ELSE IF p \in {"uint64", "uint"} /\ n.c = "pow2" /\ n.s = 1 /\ n.e >= 31 /\ n.e <= 63 THEN [k |-> "num", v |-> n]    \* 2^31 .. 2^63 fit a 64-bit unsigned field
       ELSE IF p = "int64" /\ n.c = "pow2" /\ n.e >= 31 /\ n.e <= 62 THEN [k |-> "num", v |-> n]                             \* +-2^31 .. +-2^62 fit int64
       ELSE IF p \in {"uint64", "uint"} /\ n = NamedNum("three62") THEN [k |-> "num", v |-> n]                                   \* 3 * 2^62 fits a 64-bit unsigned field only
       ELSE IF n.c \in {"pow2", "named"} THEN UErr("unk")
       ELSE IF IsInteger(n) /\ IntVal(n) >= IntRange(p)[1] /\ IntVal(n) <= IntRange(p)[2] THEN [k |-> "num", v |-> IF IsZero(n) THEN Zero(1) ELSE n]
       ELSE UErr("unk")

SeqErr(gs) == IF \E i \in 1..Len(gs) : IsUErr(gs[i]) /\ gs[i].why # "unk" THEN gs[CHOOSE i \in 1..Len(gs) : IsUErr(gs[i]) /\ gs[i].why # "unk"]
              ELSE gs[CHOOSE i \in 1..Len(gs) : IsUErr(gs[i])]
HasErr(gs) == \E i \in 1..Len(gs) : IsUErr(gs[i])

\* may the node-set produced by expression e arrive in descending document order?  (C03: only when it uses a reverse
\* axis and is not a union) - a slice filled from it then holds its elements in that "result order"
MayRev(e) == UsesReverseAxis(e) /\ e.op # "union"
RECURSIVE FillValue(_, _, _, _, _)
FillStruct(d, env, fs, n) ==
  LET gs == [i \in 1..Len(fs) |->
               IF fs[i].tag.op = "none" THEN [k |-> "keep"]
               ELSE IF ~fs[i].exported THEN UErr("unexported-field")
               ELSE LET r == Eval(d, env, fs[i].tag, Ctx(n)) IN
                    IF IsErr(r) THEN UErr(IF r.why \in SkipWhys THEN "unk" ELSE "tag-query-failed") ELSE FillValue(d, env, fs[i].t, r, MayRev(fs[i].tag))]
  IN IF HasErr(gs) THEN SeqErr(gs) ELSE [k |-> "rec", f |-> gs]
\* rev: the node-set r may arrive in descending order (see MayRev); a "list" then carries rev |-> TRUE and is matched in either orientation
FillValue(d, env, T, r, rev) ==
  CASE T.k = "ref" -> FillValue(d, env, RefType(T.n), r, rev)
    [] T.k = "prim" -> PrimOf(d, T.p, r)
    [] T.k = "ptr" -> FillValue(d, env, T.e, r, rev)         \* freshly allocated; the harness looks through pointers
    [] T.k = "slice" ->
         LET el == IF StripPtr(T.e).k = "ref" THEN RefType(StripPtr(T.e).n) ELSE StripPtr(T.e) IN
         IF el.k = "slice" THEN UErr("multi-dimensional-slice")
         ELSE IF el.k \notin {"prim", "struct"} THEN UErr("unsupported-element")
         ELSE IF r.t # "ns" THEN UErr("slice-needs-node-set")
         ELSE LET ids == Asc(r.v)
                  gs == [i \in 1..Len(ids) |-> FillValue(d, env, el, NS({ids[i]}), FALSE)]
              IN IF HasErr(gs) THEN SeqErr(gs) ELSE [k |-> "list", v |-> gs, rev |-> rev]
    [] T.k = "struct" ->
         IF r.t # "ns" \/ Cardinality(r.v) # 1 THEN UErr("struct-needs-one-node")
         ELSE FillStruct(d, env, T.f, MinOf(r.v))
    [] OTHER -> UErr("unsupported-kind")

\* the whole call: how the target is passed matters
UnmarshalCall(d, env, form, T, r, rev) ==
  IF form # "ptr" THEN UErr("target-not-a-non-nil-pointer")
  ELSE IF StripPtr(T).k \notin {"struct", "slice"} THEN UErr("unsupported-kind")
  ELSE FillValue(d, env, T, r, rev)
=============================================================================
