------------------------------ MODULE MC_Fixed -----------------------------
(* Two-step paths on one fixed, larger document.  The Store-machine         *)
(* documents of MC_C01 / MC_Paths are exhaustive but small (<= 6 nodes): an  *)
(* element there has at most one attribute and no sibling with attributes.   *)
(* This family complements them with a hand-written document in which nested *)
(* elements carry two attributes and two namespace nodes each, and every     *)
(* pair of axes is walked from every node: after a reverse-axis step the      *)
(* context of the second step is a several-node set in reverse document       *)
(* order, which is where merging mistakes (mixed runs, duplicates) show.      *)
(* One state per context node; the Emit invariant writes its replay cases.    *)
(***************************************************************************)
EXTENDS XGen

VARIABLES c, ph

Nd(k, p, sp, lo, v) == [k |-> k, p |-> p, sp |-> sp, lo |-> lo, v |-> v]
E0(p, lo) == Nd("elem", p, <<>>, lo, <<>>)
NsX(p) == Nd("ns", p, <<>>, <<"x","m","l">>, <<"XMLNS">>)
NsP(p) == Nd("ns", p, <<>>, <<"p">>, U1)
At(p, lo, v) == Nd("attr", p, <<>>, lo, v)
Tx(p, v) == Nd("text", p, <<>>, <<>>, v)
\* <a xmlns:p="u1" x="1" y="2"><b x="3" y="4">t<a x="5"><b/>u</a></b><!--c--><b y="6"><a x="7" y="8"/></b><?t d?></a>
FDoc == << Nd("root", 0, <<>>, <<>>, <<>>),
           E0(1, <<"a">>), NsX(2), NsP(2), At(2, <<"x">>, <<"1">>), At(2, <<"y">>, <<"2">>),                    \* 2..6
           E0(2, <<"b">>), NsX(7), NsP(7), At(7, <<"x">>, <<"3">>), At(7, <<"y">>, <<"4">>), Tx(7, <<"t">>),     \* 7..12
           E0(7, <<"a">>), NsX(13), NsP(13), At(13, <<"x">>, <<"5">>),                                             \* 13..16
           E0(13, <<"b">>), NsX(17), NsP(17), Tx(13, <<"u">>),                                                     \* 17..20
           Nd("comment", 2, <<>>, <<>>, <<"c">>),                                                                  \* 21
           E0(2, <<"b">>), NsX(22), NsP(22), At(22, <<"y">>, <<"6">>),                                             \* 22..25
           E0(22, <<"a">>), NsX(26), NsP(26), At(26, <<"x">>, <<"7">>), At(26, <<"y">>, <<"8">>),                  \* 26..30
           Nd("pi", 2, <<>>, <<"t">>, <<"d">>) >>                                                                  \* 31
ASSUME WellFormed(FDoc)
Env == EnvNs([p |-> U1])

TrueP == Call(<<"t","r","u","e">>, <<>>)
FirstAxes == {"ancestor", "ancestor-or-self", "preceding", "preceding-sibling", "descendant-or-self", "following", "parent", "child"}
Pool == SetToSeq(
     {Rel(<<Step(a1, T_any), Step(a2, t2)>>) : a1 \in FirstAxes, a2 \in AxisNames, t2 \in {T_any, T_node}}
     \* the first step predicated (evaluated context node by context node), also with a position
     \cup {Rel(<<StepP(a1, T_any, <<p>>), Step(a2, T_node)>>) : a1 \in ReverseAxes, a2 \in AxisNames, p \in {TrueP, Bin("le", Call(<<"p","o","s","i","t","i","o","n">>, <<>>), IntE(2))}}
     \* three steps: reverse, to the attributes / namespace nodes, and back up
     \cup {Rel(<<Step(a1, T_any), Step(a2, T_any), Step(a3, T_node)>>) : a1 \in ReverseAxes, a2 \in {"attribute", "namespace", "child"}, a3 \in {"parent", "ancestor", "following", "preceding"}}
     \cup {Abs(<<DoS, Step(a1, T_any), Step(a2, T_any)>>) : a1 \in ReverseAxes \cup {"parent"}, a2 \in {"attribute", "namespace", "child", "parent"}})
ASSUME EmitPool("FX.two", Pool)

Init == c \in 1..Len(FDoc) /\ ph = 0
Next == ph = 0 /\ ph' = 1 /\ c' = c
\* design level: the specification's own result for a two-step path is the union over the first step's nodes
TwoStepIsUnion == ph = 1 =>
  \A a1 \in FirstAxes, a2 \in AxisNames :
     Eval(FDoc, Env, Rel(<<Step(a1, T_any), Step(a2, T_node)>>), Ctx(c)).v
       = UNION {Eval(FDoc, Env, Rel(<<Step(a2, T_node)>>), Ctx(m)).v : m \in Eval(FDoc, Env, Rel(<<Step(a1, T_any)>>), Ctx(c)).v}
Emit == ph = 1 => EmitLine("FX.two", FDoc, Env, [i \in 1..Len(Pool) |-> CCase(FDoc, Env, c, Pool, i)])
=============================================================================
