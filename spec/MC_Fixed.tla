------------------------------ MODULE MC_Fixed -----------------------------
(* Two-step paths on one fixed, larger document.  The Store-machine         *)
(* documents of MC_C01 / MC_Paths are exhaustive but small (<= 6 nodes): an  *)
(* element there has at most one attribute and no sibling with attributes.   *)
(* This family complements them with a hand-written document in which nested *)
(* elements carry two attributes and two namespace nodes each, and every     *)
(* pair of axes is walked from every node: after a reverse-axis step the      *)
(* context of the second step is a several-node set in reverse document       *)
(* order, which is where merging mistakes (mixed runs, duplicates) show.      *)
(* One state per context node; the Emit invariant writes its replay cases.    *)
(***************************************************************************)
EXTENDS XGen

VARIABLES c, ph, which   \* which: "two" (FDoc, two-step paths) | "deep" (DeepDoc, string-values)

Nd(k, p, sp, lo, v) == [k |-> k, p |-> p, sp |-> sp, lo |-> lo, v |-> v]
E0(p, lo) == Nd("elem", p, <<>>, lo, <<>>)
NsX(p) == Nd("ns", p, <<>>, <<"x","m","l">>, <<"XMLNS">>)
NsP(p) == Nd("ns", p, <<>>, <<"p">>, U1)
At(p, lo, v) == Nd("attr", p, <<>>, lo, v)
Tx(p, v) == Nd("text", p, <<>>, <<>>, v)
\* <a xmlns:p="u1" x="1" y="2"><b x="3" y="4">t<a x="5"><b/>u</a></b><!--c--><b y="6"><a x="7" y="8"/></b><?t d?></a>
FDoc == << Nd("root", 0, <<>>, <<>>, <<>>),
           E0(1, <<"a">>), NsX(2), NsP(2), At(2, <<"x">>, <<"1">>), At(2, <<"y">>, <<"2">>),                    \* 2..6
           E0(2, <<"b">>), NsX(7), NsP(7), At(7, <<"x">>, <<"3">>), At(7, <<"y">>, <<"4">>), Tx(7, <<"t">>),     \* 7..12
           E0(7, <<"a">>), NsX(13), NsP(13), At(13, <<"x">>, <<"5">>),                                             \* 13..16
           E0(13, <<"b">>), NsX(17), NsP(17), Tx(13, <<"u">>),                                                     \* 17..20
           Nd("comment", 2, <<>>, <<>>, <<"c">>),                                                                  \* 21
           E0(2, <<"b">>), NsX(22), NsP(22), At(22, <<"y">>, <<"6">>),                                             \* 22..25
           E0(22, <<"a">>), NsX(26), NsP(26), At(26, <<"x">>, <<"7">>), At(26, <<"y">>, <<"8">>),                  \* 26..30
           Nd("pi", 2, <<>>, <<"t">>, <<"d">>) >>                                                                  \* 31
ASSUME WellFormed(FDoc)
Env == EnvNs([p |-> U1])

TrueP == Call(<<"t","r","u","e">>, <<>>)
FirstAxes == {"ancestor", "ancestor-or-self", "preceding", "preceding-sibling", "descendant-or-self", "following", "parent", "child"}
Pool == SetToSeq(
     {Rel(<<Step(a1, T_any), Step(a2, t2)>>) : a1 \in FirstAxes, a2 \in AxisNames, t2 \in {T_any, T_node}}
     \* the first step predicated (evaluated context node by context node), also with a position
     \cup {Rel(<<StepP(a1, T_any, <<p>>), Step(a2, T_node)>>) : a1 \in ReverseAxes, a2 \in AxisNames, p \in {TrueP, Bin("le", Call(<<"p","o","s","i","t","i","o","n">>, <<>>), IntE(2))}}
     \* three steps: reverse, to the attributes / namespace nodes, and back up
     \cup {Rel(<<Step(a1, T_any), Step(a2, T_any), Step(a3, T_node)>>) : a1 \in ReverseAxes, a2 \in {"attribute", "namespace", "child"}, a3 \in {"parent", "ancestor", "following", "preceding"}}
     \cup {Abs(<<DoS, Step(a1, T_any), Step(a2, T_any)>>) : a1 \in ReverseAxes \cup {"parent"}, a2 \in {"attribute", "namespace", "child", "parent"}}
     \* a NAME test on the namespace axis (the library matches by the URI the query binds to the name; in this document the
     \* prefix p is bound to the URI the query binds p to, so prefix rule and URI rule select the same nodes): each node once
     \cup {Rel(<<Step("namespace", T_name("", <<"p">>))>>), Rel(<<Step("ancestor-or-self", T_any), Step("namespace", T_name("", <<"p">>))>>),
           Abs(<<DoS, Step("namespace", T_name("", <<"p">>))>>), Call(<<"c","o","u","n","t">>, <<Abs(<<DoS, Step("namespace", T_name("", <<"p">>))>>)>>),
           \* a context that mixes elements with their own attribute and namespace nodes, then a subtree walk
           Filter(Bin("union", Abs(<<DoS, Step("child", T_any)>>), Abs(<<DoS, Step("attribute", T_any)>>)), <<>>, <<Step("descendant-or-self", T_node)>>),
           Filter(Bin("union", Abs(<<DoS, Step("child", T_any)>>), Abs(<<DoS, Step("namespace", T_any)>>)), <<>>, <<DoS, Self>>),
           Filter(Bin("union", Rel(<<Self>>), Rel(<<Step("attribute", T_any)>>)), <<>>, <<Step("descendant-or-self", T_node)>>),
           \* and counts of two-step results (a duplicate shows in the number)
           Call(<<"c","o","u","n","t">>, <<Abs(<<DoS, Step("child", T_any), Step("parent", T_node)>>)>>),
           Call(<<"c","o","u","n","t">>, <<Rel(<<Step("descendant-or-self", T_node), Step("parent", T_node)>>)>>)})
ASSUME EmitPool("FX.two", Pool)

\* a document nested Depth levels deep: <e>1<e>2<e>3 ... <e>k</e> ... c</e>b</e>a</e>   (text before and after every nested element)
Depth == 18
Digit(i) == <<DigitChar(i % 10)>>
DeepDoc == <<Nd("root", 0, <<>>, <<>>, <<>>)>>
           \o [j \in 1..(2 * Depth) |-> IF j % 2 = 1 THEN Nd("elem", IF j = 1 THEN 1 ELSE j - 1, <<>>, <<"e">>, <<>>)   \* element i = (j+1)/2 has id j+1, its parent is element i-1 (id j-1)
                                         ELSE Nd("text", j, <<>>, <<>>, Digit(j \div 2))]                                      \* its leading text has id j+1
           \o [k \in 1..(Depth - 1) |-> Nd("text", 2 * (Depth - k), <<>>, <<>>, <<"a">>)]                                     \* trailing texts, innermost parent first
ASSUME WellFormed(DeepDoc)
S_string == <<"s","t","r","i","n","g">>
DeepPool == << Call(S_string, <<>>), Call(<<"s","t","r","i","n","g","-","l","e","n","g","t","h">>, <<>>), Call(S_string, <<Abs(<<>>)>>),
               Call(S_string, <<Rel(<<Step("parent", T_node)>>)>>), Call(<<"c","o","n","c","a","t">>, <<Rel(<<Self>>), Lit(<<"|">>), Rel(<<Step("child", T_any)>>)>>),
               Bin("eq", Rel(<<Self>>), Rel(<<Step("ancestor", T_any)>>)), Call(<<"c","o","u","n","t">>, <<Rel(<<Step("descendant", T_text)>>)>>),
               Call(S_string, <<Abs(<<Step("child", T_any), Step("child", T_any)>>)>>) >>
ASSUME EmitPool("C04.deep", DeepPool)
\* the string-value of an element is the concatenation of its descendant text nodes in document order: every text once
DeepLaw == (ph = 1 /\ which = "deep" /\ DeepDoc[c].k = "elem") =>
   Len(StringValue(DeepDoc, c)) = Cardinality({t \in Desc(DeepDoc, c) : DeepDoc[t].k = "text"})

Init == ph = 0 /\ ((which = "two" /\ c \in 1..Len(FDoc)) \/ (which = "deep" /\ c \in 1..Len(DeepDoc)))
Next == ph = 0 /\ ph' = 1 /\ c' = c /\ which' = which
\* design level: the specification's own result for a two-step path is the union over the first step's nodes
TwoStepIsUnion == (ph = 1 /\ which = "two") =>
  \A a1 \in FirstAxes, a2 \in AxisNames :
     Eval(FDoc, Env, Rel(<<Step(a1, T_any), Step(a2, T_node)>>), Ctx(c)).v
       = UNION {Eval(FDoc, Env, Rel(<<Step(a2, T_node)>>), Ctx(m)).v : m \in Eval(FDoc, Env, Rel(<<Step(a1, T_any)>>), Ctx(c)).v}
Emit == ph = 1 => IF which = "two" THEN EmitLine("FX.two", FDoc, Env, [i \in 1..Len(Pool) |-> CCase(FDoc, Env, c, Pool, i)])
                  ELSE EmitLine("C04.deep", DeepDoc, Env, [i \in 1..Len(DeepPool) |-> CCase(DeepDoc, Env, c, DeepPool, i)])
=============================================================================
