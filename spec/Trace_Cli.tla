------------------------------ MODULE Trace_Cli -----------------------------
(* Trace specification for the command-line tool (C20, code -> spec).  Each  *)
(* trace line is one observed run of the freshly built command on a random   *)
(* argument tree with random flags:                                          *)
(*   {"ev":"cli","tree":[entries],"flags":{a,m,n,r,t,e,u,q},                  *)
(*    "obs":[per entry: {"lines": stdout lines carrying the entry's prefix   *)
(*           (-1 when the run has no prefixes), "diag": the path occurs on    *)
(*           stderr, "nres": how many nodes the library returns for the file  *)
(*           (0 when it cannot be read)}], "total": all stdout lines}          *)
(* CliOutput.Spec(tree, flags) says, per entry, whether it is visited, how    *)
(* it is parsed, whether a diagnostic is owed, what kind of records it gets   *)
(* and whether they carry the path prefix; the number of records then        *)
(* follows from the shape of the library's result (nres).  A line that does   *)
(* not fit is printed as a rejection; "done" accounts for every line.        *)
(***************************************************************************)
EXTENDS CliOutput, Json, IOUtils, TLC

Trace == ndJsonDeserialize(IOEnv.TRACE)
VARIABLES l, nbad
vars == <<l, nbad>>
Init == l = 1 /\ nbad = 0

\* records owed to entry i: none, one, or one per result node
Owed(sp, ob) == CASE sp.records = "none" -> 0
                  [] sp.records = "first" -> IF ob.nres > 0 THEN 1 ELSE 0
                  [] OTHER -> ob.nres
RECURSIVE SumTo(_, _)
SumTo(f, n) == IF n = 0 THEN 0 ELSE f[n] + SumTo(f, n - 1)

Judge(ev) ==
  LET S == Spec(ev.tree, ev.flags)
      n == Len(ev.tree)
      alldet == \A i \in 1..n : S[i].det
      owed == [i \in 1..n |-> IF S[i].det THEN Owed(S[i], ev.obs[i]) ELSE 0]
      \* per entry: prefixed lines are attributable to their file
      perEntry == \A i \in 1..n : (S[i].det /\ ev.obs[i].lines >= 0 /\ ev.tree[i].cls # "dir") =>
                     ev.obs[i].lines = (IF S[i].prefix THEN owed[i] ELSE 0)
      \* no prefixes (-n, standard input): only the total can be compared, and only when everything is determined
      total == alldet => ev.total = SumTo(owed, n)
      diags == \A i \in 1..n : (S[i].det /\ S[i].diag) => ev.obs[i].diag
      \* an entry that is not visited leaves no trace at all
      silent == \A i \in 1..n : (S[i].det /\ ~S[i].visit /\ ev.obs[i].lines >= 0) => ev.obs[i].lines = 0
      \* a rejected expression: one diagnostic, no output at all
      global == GlobalDiag(ev.flags) => (ev.total = 0 /\ ev.stderr)
  IN [ok |-> perEntry /\ total /\ diags /\ silent /\ global, perEntry |-> perEntry, total |-> total, diags |-> diags, silent |-> silent /\ global,
      want |-> [i \in 1..n |-> [records |-> S[i].records, owed |-> owed[i], prefix |-> S[i].prefix, diag |-> S[i].diag, det |-> S[i].det]]]

Step ==
  /\ l <= Len(Trace) /\ Trace[l].ev = "cli"
  /\ LET v == Judge(Trace[l]) IN
     /\ (~v.ok => PrintT(ToJson([verdict |-> [perEntry |-> v.perEntry, total |-> v.total, diags |-> v.diags, silent |-> v.silent], l |-> l, want |-> v.want])))
     /\ nbad' = nbad + (IF v.ok THEN 0 ELSE 1)
  /\ l' = l + 1
Done ==
  /\ l = Len(Trace) + 1
  /\ PrintT(ToJson([verdict |-> "done", lines |-> Len(Trace), bad |-> nbad]))
  /\ l' = l + 1 /\ UNCHANGED nbad
Next == Step \/ Done
=============================================================================
