------------------------------- MODULE Store ------------------------------
(* The event consumer store.CreateInMemory as a state machine: one action   *)
(* per event pulled from a parser.Parser.  The Parser contract              *)
(* (parser/parser.go) is the enabling condition of the actions; the state   *)
(* is the XDM tree built so far.  Every reachable state with only the root  *)
(* open is a complete document, so this machine is also the document        *)
(* generator of all evaluator-level models.                                 *)
(*                                                                          *)
(* Events   [k |-> "elem", sp, lo]   [k |-> "end"]                          *)
(*          [k |-> "ns", lo (prefix), v (URI)]   [k |-> "attr", sp, lo, v]  *)
(*          [k |-> "text", v]  [k |-> "comment", v]  [k |-> "pi", lo, v]    *)
(***************************************************************************)
EXTENDS StoreFn

CONSTANTS ElemNames,   \* set of [sp, lo]
          AttrNames,   \* set of [sp, lo]
          AttrValues,  \* set of character sequences
          NsDecls,     \* set of [lo (prefix), v (URI)]
          Texts,       \* set of character sequences (text values)
          Comments,    \* set of character sequences
          PIs,         \* set of [lo (target), v]
          MaxNodes,    \* bound on Len(doc)
          MaxDepth,    \* bound on Len(open)
          MaxEvents,   \* bound on Len(evs)
          SurplusEnd   \* BOOLEAN: generate End events, and namespace events, while only the root is open

VARIABLES doc,      \* the tree built so far (XDM document)
          open,   \* stack of open containers, root at the bottom
          phase,  \* what the top element may still receive: "ns" > "attr" > "child"
          evs     \* the event stream consumed so far

vars == <<doc, open, phase, evs>>

Cur == [doc |-> doc, open |-> open, phase |-> phase]
Top == open[Len(open)]

Init == /\ doc = St0.doc
        /\ open = St0.open
        /\ phase = St0.phase
        /\ evs = <<>>

\* one Pull() consumed by the store: the event must be admitted by the contract
Pull(ev, growth) ==
  /\ Accepts(Cur, ev)
  /\ Len(doc) + growth <= MaxNodes /\ Len(evs) < MaxEvents
  /\ LET st == Consume(Cur, ev) IN doc' = st.doc /\ open' = st.open /\ phase' = st.phase
  /\ evs' = Append(evs, ev)

StartElem(nm) == Len(open) < MaxDepth /\ Pull([k |-> "elem", sp |-> nm.sp, lo |-> nm.lo], 1 + Cardinality(NsOf(doc, Top)))
\* (namespace events while only the root is open are generated together with the other streams no built-in reader produces:
\*  the document generators of the XPath families, SurplusEnd = FALSE, keep to documents of the XPath data model)
NsDecl(ns) == (Len(open) > 1 \/ SurplusEnd) /\ Pull([k |-> "ns", lo |-> ns.lo, v |-> ns.v], 1)
Attr(nm, val) == Pull([k |-> "attr", sp |-> nm.sp, lo |-> nm.lo, v |-> val], 1)
Leaf(k, lo, val) == Pull(IF k = "pi" THEN [k |-> k, lo |-> lo, v |-> val] ELSE [k |-> k, v |-> val], 1)
End == (Len(open) > 1 \/ SurplusEnd) /\ Pull([k |-> "end"], 0)

Next == \/ \E nm \in ElemNames : StartElem(nm)
        \/ \E ns \in NsDecls : NsDecl(ns)
        \/ \E nm \in AttrNames, v \in AttrValues : Attr(nm, v)
        \/ \E v \in Texts : Leaf("text", <<>>, v)
        \/ \E v \in Comments : Leaf("comment", <<>>, v)
        \/ \E pi \in PIs : Leaf("pi", pi.lo, pi.v)
        \/ End

Spec == Init /\ [][Next]_vars

Complete == Len(open) = 1

(***************************************************************************)
(* Properties of the machine itself (checked by TLC in MC_Store)           *)
(***************************************************************************)
TypeOK == /\ Len(doc) >= 1 /\ open # <<>> /\ open[1] = 1
          /\ phase \in {"ns", "attr", "child"}
\* the incremental machine and the fold over the whole stream agree
FoldAgrees == TreeOf(evs) = doc /\ Conforms(evs)
TreeWellFormed == WellFormed(doc)
\* each element owns one namespace node per prefix
NsPrefixUnique == \A e \in Ids(doc) : \A a \in NsOf(doc, e), b \in NsOf(doc, e) : doc[a].lo = doc[b].lo => a = b
\* an element has a node for every binding in scope at its parent (inherited or overridden)
\* (the default namespace may be undeclared with xmlns="")
NsInherited == \A e \in Ids(doc) : doc[e].k = "elem" =>
                  \A a \in NsOf(doc, doc[e].p) : doc[a].lo # <<>> => \E b \in NsOf(doc, e) : doc[b].lo = doc[a].lo
NoEmptyDefaultNs == \A n \in Ids(doc) : doc[n].k = "ns" => ~(doc[n].lo = <<>> /\ doc[n].v = <<>>)
\* the open stack is the ancestor chain of the insertion point
OpenIsChain == \A i \in 2..Len(open) : doc[open[i]].p = open[i - 1] /\ doc[open[i]].k = "elem"
\* tree nodes and attributes, once added, stay (a namespace node may be removed by an undeclaration)
NodesOnlyGrow == [][\A n \in Ids(doc) : doc[n].k # "ns" => \E m \in Ids(doc') : doc'[m].k = doc[n].k /\ doc'[m].lo = doc[n].lo /\ doc'[m].v = doc[n].v]_vars
=============================================================================
