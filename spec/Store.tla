------------------------------- MODULE Store ------------------------------
(* The event consumer store.CreateInMemory as a state machine: one action   *)
(* per event pulled from a parser.Parser.  The Parser contract              *)
(* (parser/parser.go) is the enabling condition of the actions; the state   *)
(* is the XDM tree built so far.  Every reachable state with only the root  *)
(* open is a complete document, so this machine is also the document        *)
(* generator of all evaluator-level models.                                 *)
(*                                                                          *)
(* Events   [k |-> "elem", sp, lo]   [k |-> "end"]                          *)
(*          [k |-> "ns", lo (prefix), v (URI)]   [k |-> "attr", sp, lo, v]  *)
(*          [k |-> "text", v]  [k |-> "comment", v]  [k |-> "pi", lo, v]    *)
(***************************************************************************)
EXTENDS XDM, TLC

CONSTANTS ElemNames,   \* set of [sp, lo]
          AttrNames,   \* set of [sp, lo]
          AttrValues,  \* set of character sequences
          NsDecls,     \* set of [lo (prefix), v (URI)]
          Texts,       \* set of character sequences (text values)
          Comments,    \* set of character sequences
          PIs,         \* set of [lo (target), v]
          MaxNodes,    \* bound on Len(doc)
          MaxDepth,    \* bound on Len(open)
          MaxEvents,   \* bound on Len(evs)
          SurplusEnd   \* BOOLEAN: generate End events while only the root is open

VARIABLES doc,      \* the tree built so far (XDM document)
          open,   \* stack of open containers, root at the bottom
          phase,  \* what the top element may still receive: "ns" > "attr" > "child"
          evs     \* the event stream consumed so far

vars == <<doc, open, phase, evs>>

RootNode == [k |-> "root", p |-> 0, sp |-> <<>>, lo |-> <<>>, v |-> <<>>]
Top == open[Len(open)]
Node(k, p, sp, lo, v) == [k |-> k, p |-> p, sp |-> sp, lo |-> lo, v |-> v]

Init == /\ doc = <<RootNode>>
        /\ open = <<1>>
        /\ phase = "child"
        /\ evs = <<>>

Room(k) == Len(doc) + k <= MaxNodes /\ Len(evs) < MaxEvents

\* the tree after an element start: the element, then one namespace node per binding in
\* scope at its parent (each element owns its own namespace nodes)
AfterStart(dd, top, sp, lo) ==
  LET e == Len(dd) + 1
      inh == Asc(NsOf(dd, top))
  IN dd \o <<Node("elem", top, sp, lo, <<>>)>> \o [i \in 1..Len(inh) |-> Node("ns", e, <<>>, dd[inh[i]].lo, dd[inh[i]].v)]

StartElem(nm) ==
  /\ Len(open) < MaxDepth
  /\ Room(1 + Cardinality(NsOf(doc, Top)))
  /\ doc' = AfterStart(doc, Top, nm.sp, nm.lo)
  /\ open' = Append(open, Len(doc) + 1)
  /\ phase' = "ns"
  /\ evs' = Append(evs, [k |-> "elem", sp |-> nm.sp, lo |-> nm.lo])

\* the tree after a namespace declaration on element e: overrides an inherited binding of
\* the same prefix in place, otherwise adds a node
AfterNs(dd, e, pre, uri) ==
  LET same == {m \in NsOf(dd, e) : dd[m].lo = pre}
  IN IF same # {} THEN [dd EXCEPT ![CHOOSE m \in same : TRUE].v = uri]
     ELSE Append(dd, Node("ns", e, <<>>, pre, uri))

NsDecl(ns) ==
  /\ Len(open) > 1 /\ phase = "ns"
  /\ Room(1)
  /\ doc' = AfterNs(doc, Top, ns.lo, ns.v)
  /\ evs' = Append(evs, [k |-> "ns", lo |-> ns.lo, v |-> ns.v])
  /\ UNCHANGED <<open, phase>>

Attr(nm, val) ==
  /\ Len(open) > 1 /\ phase \in {"ns", "attr"}
  /\ Room(1)
  /\ doc' = Append(doc, Node("attr", Top, nm.sp, nm.lo, val))
  /\ phase' = "attr"
  /\ evs' = Append(evs, [k |-> "attr", sp |-> nm.sp, lo |-> nm.lo, v |-> val])
  /\ UNCHANGED open

Leaf(k, lo, val) ==
  /\ Room(1)
  /\ doc' = Append(doc, Node(k, Top, <<>>, lo, val))
  /\ phase' = "child"
  /\ evs' = Append(evs, IF k = "pi" THEN [k |-> k, lo |-> lo, v |-> val] ELSE [k |-> k, v |-> val])
  /\ UNCHANGED open

End ==
  /\ Len(evs) < MaxEvents
  /\ IF Len(open) > 1 THEN open' = SubSeq(open, 1, Len(open) - 1)
     ELSE SurplusEnd /\ open' = open      \* surplus End at the root: the tree is unchanged
  /\ phase' = "child"
  /\ evs' = Append(evs, [k |-> "end"])
  /\ UNCHANGED doc

Next == \/ \E nm \in ElemNames : StartElem(nm)
        \/ \E ns \in NsDecls : NsDecl(ns)
        \/ \E nm \in AttrNames, v \in AttrValues : Attr(nm, v)
        \/ \E v \in Texts : Leaf("text", <<>>, v)
        \/ \E v \in Comments : Leaf("comment", <<>>, v)
        \/ \E pi \in PIs : Leaf("pi", pi.lo, pi.v)
        \/ End

Spec == Init /\ [][Next]_vars

Complete == Len(open) = 1

(***************************************************************************)
(* Properties of the machine itself (checked by TLC in MC_Store)           *)
(***************************************************************************)
TypeOK == /\ Len(doc) >= 1 /\ open # <<>> /\ open[1] = 1
          /\ phase \in {"ns", "attr", "child"}
TreeWellFormed == WellFormed(doc)
\* each element owns one namespace node per prefix
NsPrefixUnique == \A e \in Ids(doc) : \A a \in NsOf(doc, e), b \in NsOf(doc, e) : doc[a].lo = doc[b].lo => a = b
\* an element has a node for every binding in scope at its parent (inherited or overridden)
NsInherited == \A e \in Ids(doc) : doc[e].k = "elem" =>
                  \A a \in NsOf(doc, doc[e].p) : \E b \in NsOf(doc, e) : doc[b].lo = doc[a].lo
\* the open stack is the ancestor chain of the insertion point
OpenIsChain == \A i \in 2..Len(open) : doc[open[i]].p = open[i - 1] /\ doc[open[i]].k = "elem"
NodesOnlyGrow == [][Len(doc') >= Len(doc) /\ \A n \in Ids(doc) : doc'[n].k = doc[n].k /\ doc'[n].p = doc[n].p]_vars
=============================================================================
