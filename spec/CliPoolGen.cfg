CONSTANTS
  NF = 3
  N = 2
  Conc = TRUE
  Prints = {1, 3}
INIT GInit
NEXT GNext
INVARIANTS EmitSchedule
