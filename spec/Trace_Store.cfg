INIT TInit
NEXT TNext
