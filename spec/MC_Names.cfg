CONSTANTS
  OpenFx = {}
  ElemNames <- N_ElemNames
  AttrNames <- N_AttrNames
  AttrValues <- N_AttrValues
  NsDecls <- N_NsDecls
  Texts <- N_Texts
  Comments <- N_Comments
  PIs <- N_PIs
  MaxNodes = 5
  MaxDepth = 3
  MaxEvents = 12
  SurplusEnd = FALSE
  Family = "C11"
INIT Init
NEXT Next
VIEW View
INVARIANTS TypeOK RenamingInvariance NamesByUri NameLaws LangLaws Emit
