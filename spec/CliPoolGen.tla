----------------------------- MODULE CliPoolGen -----------------------------
(* Schedule generator: CliPool with a history variable; every terminated     *)
(* behaviour is printed as the sequence of hook points, which the verif     *)
(* build's gate (XSEL_VERIF_SCHED) then enforces on the real command.       *)
(***************************************************************************)
EXTENDS CliPool, Json
VARIABLE h
gvars == <<next, wpc, main, sem, wg, st, out, h>>
GInit == Init /\ h = <<>>
Ev(p, f) == [point |-> p, f |-> f]
GNext == \/ \E f \in Files : \/ Acquire(f) /\ h' = Append(h, Ev("acquire", f))
                             \/ Add(f) /\ h' = Append(h, Ev("add", f))
                             \/ Spawn(f) /\ h' = Append(h, Ev("spawn", f))
                             \/ Start(f) /\ h' = Append(h, Ev("start", f))
                             \/ PrintBlock(f) /\ h' = Append(h, Ev("print", f))
                             \/ Release(f) /\ h' = Append(h, Ev("release", f))
                             \/ Done(f) /\ h' = Append(h, Ev("done", f))
         \/ WaitCall /\ h' = Append(h, Ev("wait", 0))
         \/ Exit /\ h' = Append(h, Ev("exit", 0))
EmitSchedule == main = "exit" => PrintT(ToJson([fam |-> "C14.schedule", nf |-> NF, n |-> N, conc |-> Conc, prints |-> Prints, sched |-> h]))
=============================================================================
