-------------------------------- MODULE MC_Cli ------------------------------
(* C20 model: the chooser picks an argument tree, then a flag combination.   *)
(***************************************************************************)
EXTENDS CliOutput, Json, TLC
CONSTANT EmitOn
VARIABLES ti, fl
E(name, cls, in) == [name |-> name, cls |-> cls, in |-> in]
Trees == << << E("a.xml", "xml", 0), E("b.xml", "xml", 0) >>,
            << E("d", "dir", 0), E("x.xml", "xml", 1), E("y.json", "json", 1), E("sub", "dir", 1), E("z.html", "html", 4) >>,
            << E("a.xml", "xml", 0), E("bad.xml", "xmlbad", 0), E("c.txt", "txtjson", 0), E("l.xml", "dangling", 0), E("b.xml", "xml", 0) >>,
            << E("ent.xml", "xmlent", 0), E("a.xml", "xml", 0), E("noext", "noext", 0), E("dump.zzq9x", "noext", 0) >>,
            << E("j.json", "json", 0), E("h.html", "html", 0), E("d", "dir", 0), E("k.xml", "xml", 3) >>,
            << E("data.txt", "txtjson", 0) >>,
            << E("first.xml", "xml", 0), E("no-such.xml", "missing", 0), E("second.xml", "xml", 0), E("gone", "missing", 0), E("third.json", "json", 0) >>,
            << E("-", "stdinxml", 0), E("a.xml", "xml", 0), E("pic.svg", "svg", 0), E("r%20x%s %d.xml", "xml", 0) >>,                                   \* standard input next to a file
            << E("ln.xml", "linkxml", 0), E("d", "dir", 0), E("l2.xml", "linkxml", 2), E("r.xml", "xml", 2) >> >>   \* symbolic links, named and found by -r
Bools == {TRUE, FALSE}
Flags == {[a |-> a, m |-> m, n |-> n, r |-> r, t |-> t, e |-> e, u |-> u, q |-> q] :
            a \in Bools, m \in Bools, n \in Bools, r \in Bools, t \in {"", "xml", "json"}, e \in Bools, u \in Bools, q \in {"ns", "empty", "num", "bool", "err", "bad"}}
Init == ti \in 1..Len(Trees) /\ fl = [none |-> TRUE]
Next == "none" \in DOMAIN fl /\ fl' \in {f \in Flags : ~(f.a /\ f.m)} /\ ti' = ti
Ready == "none" \notin DOMAIN fl
S == Spec(Trees[ti], fl)
Laws == Ready =>
  /\ \A i \in 1..Len(S) : (S[i].records # "none") => (S[i].visit /\ ~S[i].diag)                 \* output only for files that were read and parsed
  /\ \A i \in 1..Len(S) : (Trees[ti][i].in # 0 /\ ~fl.r) => ~S[i].visit                          \* directories are descended only with -r
  /\ \A i \in 1..Len(S) : fl.n => ~S[i].prefix
  /\ \A i \in 1..Len(S) : (Trees[ti][i].cls = "stdinxml") => (~S[i].prefix /\ ((fl.t = "" /\ fl.q # "bad") => (S[i].diag /\ S[i].records = "none")))   \* stdin: never a prefix, needs -t
  /\ (fl.q \in {"empty", "err", "bad"}) => \A i \in 1..Len(S) : S[i].records = "none"
  /\ (fl.q = "bad") => \A i \in 1..Len(S) : ~S[i].visit /\ ~S[i].diag                          \* a malformed expression: nothing is touched
Emit == (EmitOn /\ Ready) => PrintT(ToJson([fam |-> "C20.cli", tree |-> Trees[ti], flags |-> fl, spec |-> S, gdiag |-> GlobalDiag(fl)]))
=============================================================================
