CONSTANTS
  NF = 3
  N = 2
  Conc = TRUE
  Prints = {1, 3}
SPECIFICATION Spec
INVARIANTS TypeOK AtMostNRunning WaitGroupCounts TokensCount ExitOnlyAfterAllPrinted BlocksIntact
PROPERTIES Terminates
