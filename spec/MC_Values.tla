------------------------------ MODULE MC_Values ----------------------------
(* C04 conversions, C05 comparisons, C06 arithmetic, C07 string functions.  *)
(* These are functions of values, so the "machine" is an operand chooser:   *)
(* Init picks the first operand, the single action the second; every state  *)
(* with both chosen is one operand tuple.  Design-level invariants are the  *)
(* algebraic laws the properties state (evaluated on Eval); the Emit        *)
(* invariant writes the replay cases for the tuple.                         *)
(***************************************************************************)
EXTENDS XGen

CONSTANTS Family,   \* "C04s" | "C04n" | "C05" | "C06" | "C07u" | "C07b" | "C07s" | "C07t"
          EmitOn,
          StrLen    \* length bound of enumerated strings

VARIABLES a, b
vars == <<a, b>>

(***************************************************************************)
(* a fixed document providing node-set operands                            *)
(***************************************************************************)
El(p, lo) == [k |-> "elem", p |-> p, sp |-> <<>>, lo |-> lo, v |-> <<>>]
Tx(p, v) == [k |-> "text", p |-> p, sp |-> <<>>, lo |-> <<>>, v |-> v]
VDoc == << [k |-> "root", p |-> 0, sp |-> <<>>, lo |-> <<>>, v |-> <<>>],
           El(1, <<"r">>),                                   \* 2
           El(2, <<"a">>), Tx(3, <<"1", "0">>),              \* 3 4   a = "10"
           El(2, <<"a">>), Tx(5, <<"9">>),                   \* 5 6   a = "9"
           El(2, <<"b">>), Tx(7, <<"sp", "1", "0", "sp">>),  \* 7 8   b = " 10 "
           El(2, <<"c">>), Tx(9, <<"a", "b", "c">>),         \* 9 10  c = "abc"
           El(2, <<"e">>),                                   \* 11    e = ""
           El(2, <<"n">>), Tx(12, <<"1", ".", "5">>),        \* 12 13 n = "1.5"
           El(2, <<"n">>), Tx(14, <<"-", "2">>),             \* 14 15 n = "-2"
           El(2, <<"t">>), Tx(16, <<"t", "r", "u", "e">>),   \* 16 17 t = "true"
           El(2, <<"z">>), Tx(18, <<"0">>),                  \* 18 19 z = "0"
           El(2, <<"m">>), Tx(20, <<"1">>), El(20, <<"k">>), Tx(22, <<"2">>),     \* 20..23 m = "12" (nested text)
           El(2, <<"x">>), Tx(24, <<"1", "e", "2">>), El(2, <<"x">>), Tx(26, <<"+", "5">>),   \* 24..27 x = "1e2", "+5": not XPath numerals
           El(2, <<"y">>), Tx(28, <<"nbsp", "7">>), El(2, <<"y">>), Tx(30, <<"3">>),          \* 28..31 y = NBSP "7" (not XML white space), "3"
           El(2, <<"w">>), Tx(32, <<"I","n","f","i","n","i","t","y">>), El(2, <<"w">>), Tx(34, <<"nl", "4", "tab">>),  \* 32..35 w = "Infinity", "\n4\t"
           \* numerals of more than 400 digits: they convert to +-Infinity (a sum can reach an infinity and must still go on adding)
           El(2, <<"h">>), Tx(36, <<"1", "Z400">>), El(2, <<"h">>), Tx(38, <<"-", "9", "Z400">>),   \* 36..39 h = 10^400, -9*10^400
           El(2, <<"g">>), Tx(40, <<"2", "Z400">>), El(2, <<"g">>), Tx(42, <<"a">>), El(2, <<"g">>), Tx(44, <<"5">>),    \* 40..45 g = 2*10^400, "a", "5"
           \* the spellings number-to-string produces for the non-finite values are not numerals: as node text they are NaN
           El(2, <<"u">>), Tx(46, <<"N","a","N">>), El(2, <<"u">>), Tx(48, <<"-","I","n","f","i","n","i","t","y">>),      \* 46..49 u = "NaN", "-Infinity"
           \* a comment and a processing instruction: their string-values are their content ("10", "9") in comparisons as anywhere else
           [k |-> "comment", p |-> 2, sp |-> <<>>, lo |-> <<>>, v |-> <<"1","0">>], [k |-> "pi", p |-> 2, sp |-> <<>>, lo |-> <<"t">>, v |-> <<"9">>] >>   \* 50 51
ASSUME WellFormed(VDoc)
Named(nm) == Abs(<<DoS, Step("child", T_name("", nm))>>)

XVar == Var("", <<"x">>)
YVar == Var("", <<"y">>)
ZVar == Var("", <<"z">>)
Bind(nm, val) == [sp |-> <<>>, lo |-> nm, val |-> val]
NSVal(ids) == [t |-> "ns", v |-> ids]     \* inside environments node-sets are id sequences
Env1(x) == [ns |-> <<>>, vars |-> <<Bind(<<"x">>, x)>>, funcs |-> <<>>]
Env2(x, y) == [ns |-> <<>>, vars |-> <<Bind(<<"x">>, x), Bind(<<"y">>, y)>>, funcs |-> <<>>]
\* $y holds nodes of ANOTHER document: the twin has the shape of VDoc (so a tree built from it numbers its nodes like the
\* queried tree) but every text is followed by a "7"; the variable's value is the foreign node-set with the twin's string-values
TwinDoc == [n \in 1..Len(VDoc) |-> IF VDoc[n].k = "text" THEN [VDoc[n] EXCEPT !.v = @ \o <<"7">>] ELSE VDoc[n]]
ASSUME WellFormed(TwinDoc)
Foreign(ids) == [t |-> "fns", ids |-> ids, strs |-> [i \in 1..Len(ids) |-> StringValue(TwinDoc, ids[i])]]
Env2F(x, y) == [ns |-> <<>>, vars |-> <<Bind(<<"x">>, x), Bind(<<"y">>, Foreign(y.v))>>, funcs |-> <<>>, twin |-> TwinDoc]
Env3(x, y, z) == [ns |-> <<>>, vars |-> <<Bind(<<"x">>, x), Bind(<<"y">>, y), Bind(<<"z">>, z)>>, funcs |-> <<>>]
F1(nm, x) == Call(nm, <<x>>)
F2(nm, x, y) == Call(nm, <<x, y>>)
F3(nm, x, y, z) == Call(nm, <<x, y, z>>)
S_string == <<"s","t","r","i","n","g">>
S_number == <<"n","u","m","b","e","r">>
S_boolean == <<"b","o","o","l","e","a","n">>
S_not == <<"n","o","t">>
S_concat == <<"c","o","n","c","a","t">>

(***************************************************************************)
(* Operand pools.  An operand is [val |-> bound value, e |-> an inline     *)
(* expression with the same value, or [op |-> "none"]]                     *)
(***************************************************************************)
NoE == [op |-> "none"]
R(sn, dd) == Rat(sn, dd)
NumOp(x) == [val |-> NumV(x),
             e |-> IF x.c = "fin" /\ x.s = 1 THEN NumE(x)
                   ELSE IF x.c = "fin" THEN NegE(NumE(Neg(x)))
                   ELSE IF x.c = "zero" /\ x.s = 1 THEN NumE(x)
                   \* 2^e written as a literal: a 1 followed by e binary doublings is not a literal; use the product of literals for 2^53 only
                   ELSE NoE]
Nums == << Nan, Inf(1), Inf(-1), Zero(1), Zero(-1), NInt(1), NInt(-1), NInt(2), NInt(-2), NInt(3), NInt(10), NInt(9), NInt(7), NInt(-7),
           R(1, 2), R(-1, 2), R(3, 2), R(-3, 2), R(5, 2), R(-5, 2), R(7, 2), R(11, 2), R(-11, 2), R(1, 4), R(-1, 4), R(3, 4), R(-3, 4),
           R(1, 8), R(9, 8), NInt(100), NInt(-100), R(1, 1024), NInt(4000),
           Pow2(1, 53), Pow2(1, 63), Pow2(-1, 63), Pow2(1, 64), Pow2(-1, 64), Pow2(-1, 100), Pow2(-1, 1023), Pow2(1, 100), Pow2(1, 1023), Pow2(1, -30), Pow2(-1, -1074),
           NamedNum("halfpred"), NamedNum("-halfpred"), NamedNum("odd52"), NamedNum("-odd52") >>
NumOps == [i \in 1..Len(Nums) |-> NumOp(Nums[i])]
StrOp(s) == [val |-> StrV(s), e |-> Lit(s)]
CmpStrs == << <<>>, <<"1", "0">>, <<"1">>, <<"9">>, <<"sp", "1", "0", "sp">>, <<"a", "b", "c">>, <<"1", ".", "5">>, <<"t", "r", "u", "e">>,
              <<"-", "2">>, <<"0">>, <<"N", "a", "N">>, <<"1", "e", "1">>, <<"+", "9">> >>
StrOps == [i \in 1..Len(CmpStrs) |-> StrOp(CmpStrs[i])]
BoolOps == << [val |-> BoolV(TRUE), e |-> Call(<<"t","r","u","e">>, <<>>)], [val |-> BoolV(FALSE), e |-> Call(<<"f","a","l","s","e">>, <<>>)] >>
NsOp(ids, e) == [val |-> NSVal(ids), e |-> e]
NsOps == << NsOp(<<>>, Named(<<"q">>)), NsOp(<<3, 5>>, Named(<<"a">>)), NsOp(<<7>>, Named(<<"b">>)), NsOp(<<9>>, Named(<<"c">>)),
            NsOp(<<11>>, Named(<<"e">>)), NsOp(<<12, 14>>, Named(<<"n">>)), NsOp(<<16>>, Named(<<"t">>)), NsOp(<<18>>, Named(<<"z">>)),
            NsOp(<<3, 5, 9>>, Bin("union", Named(<<"a">>), Named(<<"c">>))), NsOp(<<20>>, Named(<<"m">>)),
            NsOp(<<5, 3>>, NoE),     \* a node-set handed over in reverse document order
            NsOp(<<5, 9, 3, 7>>, NoE), NsOp(<<9, 3, 12, 5>>, NoE),   \* ... and in no order at all: the first node in document order (3) sits in the middle
            NsOp(<<3, 12, 5, 9>>, NoE),                              \* ... or comes first and is followed by a descent
            NsOp(<<24, 26>>, Named(<<"x">>)), NsOp(<<28, 30>>, Named(<<"y">>)), NsOp(<<32, 34>>, Named(<<"w">>)),
            NsOp(<<36, 38>>, Named(<<"h">>)), NsOp(<<40, 42, 44>>, Named(<<"g">>)), NsOp(<<40, 44>>, NoE), NsOp(<<46, 48>>, Named(<<"u">>)), NsOp(<<46>>, NoE),
            NsOp(<<50>>, Abs(<<DoS, Step("child", T_comment)>>)), NsOp(<<51>>, Abs(<<DoS, Step("child", T_pi)>>)), NsOp(<<50, 51>>, NoE) >>
CmpNums == SubSeq(NumOps, 1, 13) \o <<NumOp(R(3, 2)), NumOp(R(1, 2))>>
AllOps == NsOps \o CmpNums \o StrOps \o BoolOps

(***************************************************************************)
(* enumerated strings: all sequences over Alpha of length <= StrLen.       *)
(* a chooses the first half, b the second half.                            *)
(***************************************************************************)
RECURSIVE SeqsUpTo(_, _)
SeqsUpTo(A, n) == IF n = 0 THEN {<<>>} ELSE LET prev == SeqsUpTo(A, n - 1) IN prev \cup {Append(s, c) : s \in prev, c \in A}
SeqsOf(A, n) == SetToSeq(SeqsUpTo(A, n))
NumAlpha == {"0", "1", "9", ".", "-", "+", "e", "sp", "nl", "nbsp", "x", "I"}
StrAlpha == {"a", "sp", "nl", "nbsp", "w2", "w4", "cm", "wsl"}   \* wsl: not white space, but its code point ends in a white-space byte
H1 == (StrLen + 1) \div 2
H2 == StrLen \div 2
Odd == << <<"I","n","f","i","n","i","t","y">>, <<"-","I","n","f","i","n","i","t","y">>, <<"N","a","N">>, <<"0","x","1","0">>, <<"1","e","3">>,
          <<"1","E","3">>, <<"tab","1","2","cr">>, <<"1","sp","2">>, <<"-","sp","1">>, <<"1","2","3","4","5","6","7">>, <<"0","0","1",".","5","0">>,
          <<"-","0">>, <<"-","0",".","0">>, <<"0",".","1","2","5">>, <<"w2","1">>, <<"1","w4">>, <<"1","cm">>,
          \* numerals of more than 400 digits: well-formed, beyond the range of a double - the nearest value is an infinity
          <<"1","Z400">>, <<"-","9","Z400">>, <<"sp","7","Z400","nl">> >>

(***************************************************************************)
(* the chooser                                                             *)
(***************************************************************************)
StrOps6 == << StrOp(<<"1","2",".">>), StrOp(<<".","5">>), StrOp(<<"sp","3","nl">>), StrOp(<<"-","7",".">>), StrOp(<<"1","e","2">>) >>   \* "12." and ".5" are numerals
Ops6 == NumOps \o NsOps \o BoolOps \o StrOps6    \* (a boolean operand is 1 or 0: true() + 1 = 2)
PoolA == CASE Family = "C05" -> AllOps
           [] Family = "C06" -> Ops6
           [] Family = "C04n" -> NumOps
           [] Family = "C04v" -> NsOps
           [] Family = "C04s" -> SeqsOf(NumAlpha, H1) \o Odd
           [] Family = "C07u" -> SeqsOf(StrAlpha, H1)
           [] Family \in {"C07b", "C07t"} -> SeqsOf({"a", "b", "w2"}, 3)
           [] Family = "C07s" -> << <<"a", "w2", "b", "w4", "c">>, <<"1", "2", "3", "4", "5">>, <<>>, <<"w3", "cm">> >>
PoolB == CASE Family = "C05" -> AllOps
           [] Family = "C06" -> Ops6
           [] Family \in {"C04n", "C04v"} -> <<0>>
           [] Family = "C04s" -> SeqsOf(NumAlpha, H2)
           [] Family = "C07u" -> SeqsOf(StrAlpha, H2)
           [] Family \in {"C07b", "C07t"} -> SeqsOf({"a", "b", "w2"}, 3)
           [] Family = "C07s" -> NumOps \o <<NumOp(NInt(4)), NumOp(NInt(5)), NumOp(NInt(6)), NumOp(R(9, 4)), NumOp(R(-9, 2))>>
NA == Len(PoolA)
NB == Len(PoolB)
Init == a \in 1..NA /\ b = 0
Next == b = 0 /\ b' \in 1..NB /\ a' = a
Ready == b # 0

EvalIn(env, e) == Eval(VDoc, env, e, Ctx(1))
CmpOps == <<"eq", "ne", "lt", "le", "gt", "ge">>
ArOps == <<"add", "sub", "mul", "div", "mod">>
Obj(env, e) == Case(VDoc, env, 1, e)
Flat(ss) == Flatten(ss)

(***************************************************************************)
(* C05                                                                     *)
(***************************************************************************)
Swap(op) == CASE op = "lt" -> "gt" [] op = "gt" -> "lt" [] op = "le" -> "ge" [] op = "ge" -> "le" [] OTHER -> op
C05Laws == (Ready /\ Family = "C05") =>
  LET A == AllOps[a] B == AllOps[b] env == Env2(A.val, B.val)
      V(op, l, r) == EvalIn(env, Bin(op, l, r))
  IN /\ \A i \in 1..6 : V(CmpOps[i], XVar, YVar) = V(Swap(CmpOps[i]), YVar, XVar)     \* L<R == R>L, symmetry of = and !=
     /\ \A i \in 1..6 : V(CmpOps[i], XVar, YVar).t \in {"bool", "err"}
     \* an empty node-set makes every comparison with a non-boolean false
     /\ (A.val.t = "ns" /\ A.val.v = <<>> /\ B.val.t # "bool") => \A i \in 1..6 : V(CmpOps[i], XVar, YVar) = BoolV(FALSE)
     \* NaN is unequal to everything, including itself
     /\ (A.val.t = "num" /\ A.val.v.c = "nan" /\ B.val.t \in {"num", "str"}) => (V("eq", XVar, YVar) = BoolV(FALSE) /\ V("ne", XVar, YVar) = BoolV(TRUE))
     \* inline operand expressions have the bound values
     /\ (A.e.op # "none") => EvalIn(env, Bin("eq", A.e, A.e)) = V("eq", XVar, XVar)
C05Cases == LET A == AllOps[a] B == AllOps[b] env == Env2(A.val, B.val) IN
  [i \in 1..6 |-> Obj(env, Bin(CmpOps[i], XVar, YVar))]
  \o (IF A.e.op # "none" /\ B.e.op # "none" THEN [i \in 1..6 |-> Obj(env, Bin(CmpOps[i], A.e, B.e))] ELSE <<>>)
  \o (IF B.val.t = "ns" THEN [i \in 1..6 |-> Obj(Env2F(A.val, B.val), Bin(CmpOps[i], XVar, YVar))] ELSE <<>>)
\* != is not the negation of = for node-sets: there is a witness pair
ASSUME Family = "C05" => \E i \in 1..Len(NsOps), j \in 1..Len(NsOps) :
          LET env == Env2(NsOps[i].val, NsOps[j].val) IN
          EvalIn(env, Bin("eq", XVar, YVar)) = BoolV(TRUE) /\ EvalIn(env, Bin("ne", XVar, YVar)) = BoolV(TRUE)

(***************************************************************************)
(* C06                                                                     *)
(***************************************************************************)
S_floor == <<"f","l","o","o","r">>
S_ceiling == <<"c","e","i","l","i","n","g">>
S_round == <<"r","o","u","n","d">>
S_sum == <<"s","u","m">>
S_count == <<"c","o","u","n","t">>
C06Laws == (Ready /\ Family = "C06") =>
  LET A == Ops6[a] B == Ops6[b] env == Env2(A.val, B.val)
      N(e) == EvalIn(env, e)
  IN /\ \A i \in 1..5 : N(Bin(ArOps[i], XVar, YVar)).t \in {"num", "err"}        \* total: never another type
     /\ \A i \in 1..5 : LET r == N(Bin(ArOps[i], XVar, YVar)) IN r.t = "err" => r.why = "unk"
     /\ N(Bin("add", XVar, YVar)) = N(Bin("add", YVar, XVar))
     /\ N(Bin("mul", XVar, YVar)) = N(Bin("mul", YVar, XVar))
     /\ N(Bin("sub", XVar, YVar)) = N(Bin("add", XVar, NegE(YVar)))
     \* x mod y has the sign of x and |x mod y| < |y|
     /\ LET m == N(Bin("mod", XVar, YVar)) x == ToNum(VDoc, AsValue(A.val)) y == ToNum(VDoc, AsValue(B.val)) IN
        (m.t = "num" /\ m.v.c = "fin" /\ y.c = "fin") => (m.v.s = x.s /\ NumLt([m.v EXCEPT !.s = 1], [y EXCEPT !.s = 1]))
     \* floor(x) <= x <= ceiling(x), both integers, round within 1/2
     /\ LET x == ToNum(VDoc, AsValue(A.val)) f == N(F1(S_floor, XVar)).v c == N(F1(S_ceiling, XVar)).v r == N(F1(S_round, XVar)).v IN
        (x.c = "fin") => /\ IsInteger(f) /\ IsInteger(c) /\ IsInteger(r)
                         /\ NumLe(f, x) /\ NumLe(x, c) /\ NumLe(Sub(c, f), NInt(1))
                         /\ r \in {f, c} \/ (IsZero(r) /\ (IsZero(f) \/ IsZero(c)))
\* long decimal numerals (16 to 19 significant digits): the specification does not know their doubles, but the string and
\* the literal spelled the same convert to the same one
Chars(str) == [i \in 1..Len(str) |-> str[i]]
LongNumerals == << <<"0",".","9","9","1","7","5","3","4","0","4","5","2","4","4","9","5","9">>,
                   <<"8","4","7",".","0","5","2","7","7","4","9","2","3","9","2","9","1","8">>,
                   <<"5","8","2",".","5","8","9","0","6","3","8","5","0","8","1","4","9","1","5">>,
                   <<"0",".","1","2","3","4","5","6","7","8","9","0","1","2","3","4","5","6","7">>,
                   <<"9","0","0","7","1","9","9","2","5","4","7","4","0","9","9","3",".","5">>,
                   <<"1","2","3","4","5","6","7","8","9","0","1","2","3","4","5","6","7","8","9","0","1">> >>
LongNumeralCases == [k \in 1..(2 * Len(LongNumerals)) |->
   LET s == LongNumerals[((k - 1) \div 2) + 1] IN
   IF k % 2 = 1 THEN Obj(Env1(StrV(s)), Bin("eq", F1(S_number, Lit(s)), NumText(s)))
   ELSE Obj(Env1(StrV(s)), Bin("ne", NumText(s), F1(S_number, Lit(s))))]
C06Cases == LET A == Ops6[a] B == Ops6[b] env == Env2(A.val, B.val) IN
  [i \in 1..5 |-> Obj(env, Bin(ArOps[i], XVar, YVar))]
  \o (IF A.e.op # "none" /\ B.e.op # "none" THEN [i \in 1..5 |-> Obj(env, Bin(ArOps[i], A.e, B.e))] ELSE <<>>)
  \o (IF b = 1 THEN << Obj(env, NegE(XVar)), Obj(env, F1(S_floor, XVar)), Obj(env, F1(S_ceiling, XVar)), Obj(env, F1(S_round, XVar)),
                       Obj(env, F1(S_number, XVar)), Obj(env, NegE(NegE(XVar))) >>
                    \o (IF A.val.t = "ns" THEN << Obj(env, F1(S_sum, XVar)), Obj(env, F1(S_count, XVar)) >>
                                            \o (IF A.e.op # "none" THEN << Obj(env, F1(S_sum, A.e)), Obj(env, F1(S_count, A.e)) >> ELSE <<>>)
                        ELSE IF A.e.op # "none" THEN << Obj(env, F1(S_round, A.e)), Obj(env, F1(S_floor, A.e)), Obj(env, F1(S_ceiling, A.e)) >> ELSE <<>>)
      ELSE <<>>)
  \o (IF a = 1 /\ b = 1 THEN LongNumeralCases ELSE <<>>)

(***************************************************************************)
(* C04: numbers -> string / boolean, strings -> number / boolean           *)
(***************************************************************************)
C04nLaws == (Ready /\ Family = "C04n") =>
  LET x == Nums[a] env == Env1(NumV(x)) s == NumToStr(x) IN
  /\ ~IsUnkStr(s) => (StrToNum(s) = x \/ IsUnk(StrToNum(s)) \/ (x.c = "zero" /\ StrToNum(s) = Zero(1)) \/ x.c \in {"nan", "inf"})   \* reads back
  /\ (x.c \in {"nan", "inf"}) => IsNan(StrToNum(s))                 \* 'NaN', 'Infinity' are not numerals
  /\ \A i \in 1..Len(s) : s[i] \notin {"e", "E", "+"}              \* never an exponent
  /\ (IsInteger(x) => \A i \in 1..Len(s) : s[i] # ".")
  /\ EvalIn(env, F1(S_boolean, XVar)) = BoolV(~(IsNan(x) \/ IsZero(x)))
C04nCases == LET x == NumOps[a] env == Env1(x.val) IN
  << Obj(env, F1(S_string, XVar)), Obj(env, F2(S_concat, XVar, Lit(<<>>))), Obj(env, F1(S_boolean, XVar)), Obj(env, F1(S_not, F1(S_not, XVar))),
     Obj(env, F1(S_number, F1(S_string, XVar))), Obj(env, F1(<<"s","t","r","i","n","g","-","l","e","n","g","t","h">>, XVar)),
     Obj(env, Abs(<<DoS, StepP("child", T_any, <<XVar>>)>>)), Obj(env, Bin("and", XVar, Lit(<<"a">>))), Obj(env, Bin("or", XVar, Lit(<<>>))),
     \* a number compared with a boolean is converted to a boolean first, on whichever side it stands: 2 = true()
     Obj(env, Bin("eq", XVar, BoolOps[1].e)), Obj(env, Bin("eq", BoolOps[1].e, XVar)), Obj(env, Bin("ne", XVar, BoolOps[2].e)), Obj(env, Bin("eq", BoolOps[2].e, XVar)),
     Obj(env, Bin("ne", XVar, BoolOps[1].e)), Obj(env, Bin("eq", XVar, BoolOps[2].e)) >>
  \o (IF x.e.op # "none" THEN << Obj(env, F1(S_string, x.e)), Obj(env, F1(S_boolean, x.e)) >> ELSE <<>>)

StrAB == IF a <= Len(SeqsOf(NumAlpha, H1)) THEN PoolA[a] \o PoolB[b] ELSE PoolA[a]
C04sLaws == (Ready /\ Family = "C04s") =>
  LET s == StrAB n == StrToNum(s) IN
  /\ (\E i \in 1..Len(s) : s[i] \in {"+", "e", "x", "I", "nbsp"}) => IsNan(n)          \* exponents, '+', hex, words, non-XML spaces
  /\ (~IsNan(n) /\ ~IsUnk(n) /\ ~HasZ(s)) => IsUNumeral(LET t == TrimWS(s) IN IF t[1] = "-" THEN Tail(t) ELSE t)
  /\ HasZ(s) => (IsInf(n) \/ IsUnk(n))
  /\ EvalIn(Env1(StrV(s)), F1(S_boolean, XVar)) = BoolV(s # <<>>)
C04sCases == LET s == StrAB env == Env1(StrV(s)) IN
  << Obj(env, F1(S_number, XVar)), Obj(env, Bin("add", XVar, IntE(0))), Obj(env, Bin("eq", XVar, IntE(1))), Obj(env, F1(S_boolean, XVar)),
     Obj(env, Bin("lt", XVar, IntE(2))), Obj(env, F1(S_number, Lit(s))), Obj(env, NegE(XVar)), Obj(env, F1(S_string, XVar)) >>
  \o (IF a = 1 /\ b = 1 THEN LongNumeralCases ELSE <<>>)

(***************************************************************************)
(* C07                                                                     *)
(***************************************************************************)
S_len == <<"s","t","r","i","n","g","-","l","e","n","g","t","h">>
S_norm == <<"n","o","r","m","a","l","i","z","e","-","s","p","a","c","e">>
S_sw == <<"s","t","a","r","t","s","-","w","i","t","h">>
S_cont == <<"c","o","n","t","a","i","n","s">>
S_sb == <<"s","u","b","s","t","r","i","n","g","-","b","e","f","o","r","e">>
S_sa == <<"s","u","b","s","t","r","i","n","g","-","a","f","t","e","r">>
S_sub == <<"s","u","b","s","t","r","i","n","g">>
S_tr == <<"t","r","a","n","s","l","a","t","e">>
C07uStr == PoolA[a] \o PoolB[b]
UpperAZ == <<"A","B","C","D","E","F","G","H","I","J","K","L","M","N","O","P","Q","R","S","T","U","V","W","X","Y","Z">>
LowerAZ == <<"a","b","c","d","e","f","g","h","i","j","k","l","m","n","o","p","q","r","s","t","u","v","w","x","y","z">>
C07Laws == (Ready /\ Family \in {"C07u", "C07b", "C07t", "C07s"}) =>
  CASE Family = "C07u" ->
         LET s == C07uStr n == NormalizeSpace(s) IN
         /\ n = NormalizeSpace(n)                                                         \* idempotent
         /\ (n # <<>> => n[1] \notin WS /\ n[Len(n)] \notin WS)
         /\ \A i \in 1..(Len(n) - 1) : ~(n[i] \in WS /\ n[i + 1] \in WS)
         /\ \A i \in 1..Len(n) : n[i] \in WS => n[i] = "sp"
         /\ \A i \in 1..Len(s) : s[i] = "nbsp" => \E j \in 1..Len(n) : n[j] = "nbsp"  \* non-XML spaces survive
    [] Family = "C07b" ->
         LET s == PoolA[a] t == PoolB[b] IN
         /\ ContainsS(s, t) <=> (SubstringBefore(s, t) \o t \o SubstringAfter(s, t) = s /\ (t # <<>> \/ TRUE))
         /\ StartsWithS(s, t) => (ContainsS(s, t) /\ SubstringBefore(s, t) = <<>>)
         /\ ~ContainsS(s, t) => (SubstringBefore(s, t) = <<>> /\ SubstringAfter(s, t) = <<>>)
    [] Family = "C07t" ->
         LET s == PoolA[a] f == PoolB[b] IN
         /\ Translate(s, f, f) = s
         /\ Len(Translate(s, f, <<>>)) = Cardinality({i \in 1..Len(s) : FirstIdx(f, s[i]) = 0})
    [] Family = "C07s" ->
         LET s == PoolA[a] p == PoolB[b].val.v IN
         /\ Chs(Substring(s, p, FALSE, Nan)) = Chs(Substring(s, p, TRUE, Inf(1))) \/ IsNan(p) \/ (IsInf(p) /\ p.s = -1)
         /\ Chs(Substring(s, NInt(1), FALSE, Nan)) = s
         /\ Chs(Substring(s, p, TRUE, Nan)) = <<>>
         /\ Chs(Substring(s, p, TRUE, NInt(-1))) = <<>> /\ Chs(Substring(s, p, TRUE, Zero(1))) = <<>>        \* a length that is not positive selects nothing
C07Cases ==
  CASE Family = "C07u" ->
         LET s == C07uStr env == Env1(StrV(s)) IN
         << Obj(env, F1(S_len, XVar)), Obj(env, F1(S_norm, XVar)), Obj(env, F1(S_len, Lit(s))), Obj(env, F1(S_norm, Lit(s))),
            Obj(env, F2(S_concat, XVar, XVar)), Obj(env, F2(S_sub, XVar, IntE(2))), Obj(env, F3(S_sub, XVar, IntE(2), IntE(2))),
            Obj(env, F3(S_tr, XVar, Lit(<<"a", "sp", "w2">>), Lit(<<"w4", "b">>))), Obj(env, F3(S_sub, XVar, NumE(R(3, 2)), NumE(R(5, 2)))),
            \* the case-folding idiom maps the 26 listed letters and nothing else (a non-ASCII letter of the source stays as it is)
            Obj(env, F3(S_tr, XVar, Lit(UpperAZ), Lit(LowerAZ))), Obj(env, F3(S_tr, XVar, Lit(LowerAZ), Lit(UpperAZ))) >>
    [] Family = "C07b" ->
         LET env == Env2(StrV(PoolA[a]), StrV(PoolB[b])) IN
         << Obj(env, F2(S_sw, XVar, YVar)), Obj(env, F2(S_cont, XVar, YVar)), Obj(env, F2(S_sb, XVar, YVar)), Obj(env, F2(S_sa, XVar, YVar)),
            Obj(env, F2(S_concat, XVar, YVar)), Obj(env, F2(S_sa, Lit(PoolA[a]), Lit(PoolB[b]))), Obj(env, Call(S_concat, <<XVar, YVar, XVar>>)) >>
    [] Family = "C07t" ->
         LET env == Env2(StrV(PoolA[a]), StrV(PoolB[b])) T == SeqsOf({"a", "b", "w2"}, 3) \o << <<"w4", "a", "a", "b">>, <<"b", "a">> >> IN
         [i \in 1..Len(T) |-> Obj(env, F3(S_tr, XVar, YVar, Lit(T[i])))]
    [] Family = "C07s" ->
         LET env == Env2(StrV(PoolA[a]), PoolB[b].val) L == PoolB IN
         <<Obj(env, F2(S_sub, XVar, YVar))>> \o [i \in 1..Len(L) |-> Obj(Env3(StrV(PoolA[a]), PoolB[b].val, L[i].val), F3(S_sub, XVar, YVar, ZVar))]
\* the examples printed in the recommendation (section 4.2)
S12345 == <<"1", "2", "3", "4", "5">>
ASSUME Chs(Substring(S12345, R(3, 2), TRUE, R(13, 5))) = <<"2", "3", "4">>
ASSUME Chs(Substring(S12345, NInt(0), TRUE, NInt(3))) = <<"1", "2">>
ASSUME Chs(Substring(S12345, Nan, TRUE, NInt(3))) = <<>>
ASSUME Chs(Substring(S12345, NInt(1), TRUE, Nan)) = <<>>
ASSUME Chs(Substring(S12345, NInt(-42), TRUE, Inf(1))) = S12345
ASSUME Chs(Substring(S12345, Inf(-1), TRUE, Inf(1))) = <<>>
ASSUME Chs(Substring(S12345, NInt(2), FALSE, Nan)) = <<"2", "3", "4", "5">>
ASSUME SubstringBefore(<<"1","9","9","9","/","0","4","/","0","1">>, <<"/">>) = <<"1","9","9","9">>
ASSUME SubstringAfter(<<"1","9","9","9","/","0","4","/","0","1">>, <<"/">>) = <<"0","4","/","0","1">>
ASSUME SubstringAfter(<<"1","9","9","9","/","0","4","/","0","1">>, <<"1","9">>) = <<"9","9","/","0","4","/","0","1">>
ASSUME Translate(<<"b","a","r">>, <<"a","b","c">>, <<"A","B","C">>) = <<"B","A","r">>
ASSUME Translate(<<"-","-","a","a","a","-","-">>, <<"a","b","c","-">>, <<"A","B","C">>) = <<"A","A","A">>
ASSUME Round(R(-1, 2)) = Zero(-1) /\ Round(R(5, 2)) = NInt(3) /\ Round(R(-5, 2)) = NInt(-2) /\ Round(R(-3, 2)) = NInt(-1)
ASSUME Mod(NInt(5), NInt(2)) = NInt(1) /\ Mod(NInt(5), NInt(-2)) = NInt(1) /\ Mod(NInt(-5), NInt(2)) = NInt(-1) /\ Mod(NInt(-5), NInt(-2)) = NInt(-1)
ASSUME Mod(R(11, 2), NInt(2)) = R(3, 2)

(***************************************************************************)
(* C04v: node-sets -> string / number / boolean.  The node-set is handed   *)
(* over by the caller (variable $x, or returned by the function pk()) in   *)
(* the order of the pool entry - ascending, descending or neither; its     *)
(* string is the string-value of the node that is FIRST IN DOCUMENT ORDER. *)
(***************************************************************************)
EnvV(x) == [ns |-> <<>>, vars |-> <<Bind(<<"x">>, x)>>, funcs |-> <<[sp |-> <<>>, lo |-> <<"p","k">>, kind |-> "const", val |-> x]>>]
Pk == Call(<<"p","k">>, <<>>)
C04vLaws == (Ready /\ Family = "C04v") =>
  LET A == NsOps[a] env == EnvV(A.val) ids == ToSet(A.val.v) IN
  /\ EvalIn(env, F1(S_boolean, XVar)) = BoolV(ids # {})
  /\ EvalIn(env, F1(S_string, XVar)) = StrV(IF ids = {} THEN <<>> ELSE StringValue(VDoc, MinOf(ids)))
  /\ EvalIn(env, F1(S_string, Pk)) = EvalIn(env, F1(S_string, XVar))
  /\ EvalIn(env, F1(S_number, XVar)) = EvalIn(env, F1(S_number, F1(S_string, XVar)))
C04vCases == LET A == NsOps[a] env == EnvV(A.val) IN
  << Obj(env, F1(S_string, XVar)), Obj(env, F1(S_number, XVar)), Obj(env, F1(S_boolean, XVar)), Obj(env, F1(S_len, XVar)), Obj(env, F2(S_concat, XVar, Lit(<<"!">>))),
     Obj(env, NegE(XVar)), Obj(env, Bin("add", XVar, IntE(0))), Obj(env, F1(<<"n","a","m","e">>, XVar)), Obj(env, F1(<<"l","o","c","a","l","-","n","a","m","e">>, XVar)),
     Obj(env, F2(S_sw, XVar, Lit(<<"1">>))), Obj(env, F1(S_norm, XVar)), Obj(env, F1(S_not, XVar)), Obj(env, F1(S_round, XVar)),
     Obj(env, F1(S_string, Pk)), Obj(env, F1(S_number, Pk)), Obj(env, F1(S_boolean, Pk)), Obj(env, F2(S_sa, Pk, Lit(<<"1">>))), Obj(env, Bin("mul", Pk, IntE(2))),
     Obj(env, F3(S_tr, XVar, Lit(<<"1">>), Lit(<<"9">>))), Obj(env, F3(S_sub, Lit(<<"a","b","c">>), XVar, IntE(1))),
     \* a node-set compared with a boolean is converted as a whole (true iff non-empty), not node by node
     Obj(env, Bin("eq", XVar, BoolOps[1].e)), Obj(env, Bin("eq", BoolOps[2].e, XVar)), Obj(env, Bin("ne", XVar, BoolOps[1].e)), Obj(env, Bin("ne", BoolOps[2].e, Pk)),
     \* ... with a number: every node's string-value is CONVERTED to a number (" 10 " = 10, "1.5" = 1.5; "Infinity" is NaN)
     Obj(env, Bin("eq", XVar, IntE(10))), Obj(env, Bin("eq", IntE(10), XVar)), Obj(env, Bin("eq", XVar, NumE(R(3, 2)))), Obj(env, Bin("eq", NegE(IntE(2)), XVar)),
     Obj(env, Bin("eq", XVar, Bin("div", IntE(1), IntE(0)))), Obj(env, Bin("eq", XVar, IntE(0))), Obj(env, Bin("ne", XVar, IntE(10))) >>
  \o (IF A.e.op # "none" THEN << Obj(env, F1(S_string, A.e)), Obj(env, F1(S_number, A.e)), Obj(env, F1(S_boolean, A.e)) >> ELSE <<>>)

Cases == CASE Family = "C05" -> C05Cases [] Family = "C04v" -> C04vCases [] Family = "C06" -> C06Cases [] Family = "C04n" -> C04nCases [] Family = "C04s" -> C04sCases
           [] OTHER -> C07Cases
Emit == (EmitOn /\ Ready) => EmitLine(Family, VDoc, [ns |-> <<>>, vars |-> <<>>, funcs |-> <<>>], Cases)
=============================================================================
