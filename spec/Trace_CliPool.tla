--------------------------- MODULE Trace_CliPool ---------------------------
(* Trace specification for the command-line tool's worker pool: the events  *)
(* logged by the verif hooks (one per hook point, totally ordered by the    *)
(* hook's sequence number) must be a behaviour of CliPool.  The first line  *)
(* of the file gives the configuration shared by all runs in it;            *)
(* {"point":"reset"} separates runs.                                        *)
(*  {"point":"config","nf":3,"n":2,"conc":true,"prints":[1,3]}              *)
(*  {"point":"acquire","f":1} ... {"point":"wait","f":0} {"point":"exit","f":0} *)
(***************************************************************************)
EXTENDS CliPool, Json, IOUtils

Trace == ndJsonDeserialize(IOEnv.TRACE)
TNF == Trace[1].nf
TN == Trace[1].n
TConc == Trace[1].conc
TPrints == {Trace[1].prints[i] : i \in 1..Len(Trace[1].prints)}

VARIABLES l, runs
tvars == <<next, wpc, main, sem, wg, st, out, l, runs>>

TInit == Init /\ l = 2 /\ runs = 0

StepOf(ev) ==
  CASE ev.point = "acquire" -> Acquire(ev.f)
    [] ev.point = "add" -> Add(ev.f)
    [] ev.point = "spawn" -> Spawn(ev.f)
    [] ev.point = "start" -> Start(ev.f)
    [] ev.point = "print" -> PrintBlock(ev.f)
    [] ev.point = "release" -> Release(ev.f)
    [] ev.point = "done" -> Done(ev.f)
    [] ev.point = "wait" -> WaitCall
    [] ev.point = "exit" -> Exit
    [] ev.point = "reset" -> /\ main = "exit" /\ ExitOnlyAfterAllPrinted        \* the previous run ended properly
                             /\ next' = 1 /\ wpc' = "acquire" /\ main' = (IF NF = 0 THEN "wait" ELSE "walk")
                             /\ sem' = 0 /\ wg' = 0 /\ st' = [f \in Files |-> "new"] /\ out' = <<>>
Consume == /\ l <= Len(Trace) /\ StepOf(Trace[l]) /\ l' = l + 1
           /\ runs' = runs + (IF Trace[l].point = "reset" THEN 1 ELSE 0)
\* the next event is not a step of the specification: report where and in which state
Reject == /\ l <= Len(Trace) /\ ~ENABLED StepOf(Trace[l])
          /\ PrintT(ToJson([verdict |-> "rejected", l |-> l, event |-> Trace[l],
                            state |-> [next |-> next, wpc |-> wpc, main |-> main, sem |-> sem, wg |-> wg, st |-> st, out |-> out]]))
          /\ l' = Len(Trace) + 2 /\ UNCHANGED <<next, wpc, main, sem, wg, st, out, runs>>
Accept == /\ l = Len(Trace) + 1
          /\ PrintT(ToJson([verdict |-> IF main = "exit" /\ ExitOnlyAfterAllPrinted THEN "done" ELSE "incomplete", lines |-> Len(Trace), runs |-> runs + 1]))
          /\ l' = l + 1 /\ UNCHANGED <<next, wpc, main, sem, wg, st, out, runs>>
TNext == Consume \/ Reject \/ Accept
=============================================================================
