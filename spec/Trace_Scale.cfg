INIT Init
NEXT Next
