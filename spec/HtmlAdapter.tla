----------------------------- MODULE HtmlAdapter ----------------------------
(* C17: parser/html.go as a state machine over an abstract DOM, and the      *)
(* mapping it must realise.                                                  *)
(*                                                                          *)
(* DOM (what golang.org/x/net/html.Parse returns): a sequence of nodes in    *)
(* document (pre-)order, node 1 is the document node:                        *)
(*   [k |-> "doc" | "doctype" | "elem" | "text" | "comment",                 *)
(*    p |-> parent index (0 for the document), lo |-> tag name / data,       *)
(*    at |-> Seq([ns |-> chars, key |-> chars, v |-> chars])]                *)
(* Mapping (property C17): same elements, nesting and order, local names     *)
(* only; attributes minus xmlns declarations, prefixes stripped; text and    *)
(* comment nodes; the doctype is skipped; everything in no namespace.        *)
(***************************************************************************)
EXTENDS StoreFn

KidsOf(dom, n) == Asc({m \in 1..Len(dom) : dom[m].p = n})
FirstChild(dom, n) == LET ks == KidsOf(dom, n) IN IF ks = <<>> THEN 0 ELSE ks[1]
NextSibling(dom, n) == IF dom[n].p = 0 THEN 0
                       ELSE LET later == {m \in 1..Len(dom) : dom[m].p = dom[n].p /\ m > n} IN IF later = {} THEN 0 ELSE MinOf(later)

ColonPos(s) == IF \E i \in 1..Len(s) : s[i] = ":" THEN CHOOSE i \in 1..Len(s) : s[i] = ":" /\ \A j \in 1..(i - 1) : s[j] # ":" ELSE 0
LocalPart(s) == IF ColonPos(s) = 0 THEN s ELSE SubSeq(s, ColonPos(s) + 1, Len(s))
XmlnsS == <<"x", "m", "l", "n", "s">>
IsXmlnsDecl(a) == a.ns = XmlnsS \/ a.key = XmlnsS \/ (Len(a.key) > 6 /\ SubSeq(a.key, 1, 6) = XmlnsS \o <<":">>)
AttrEvents(at) == LET keep == SelectSeq(at, LAMBDA a : ~IsXmlnsDecl(a))
                  IN [i \in 1..Len(keep) |-> [k |-> "attr", sp |-> <<>>, lo |-> LocalPart(keep[i].key), v |-> keep[i].v]]
RECURSIVE DomEvents(_, _)
DomEvents(dom, n) ==
  LET ks == KidsOf(dom, n)
      sub == Flatten([i \in 1..Len(ks) |-> DomEvents(dom, ks[i])])
  IN CASE dom[n].k = "doc" -> sub
       [] dom[n].k = "doctype" -> <<>>
       [] dom[n].k = "elem" -> <<[k |-> "elem", sp |-> <<>>, lo |-> LocalPart(dom[n].lo)]>> \o AttrEvents(dom[n].at) \o sub \o <<[k |-> "end"]>>
       [] dom[n].k = "text" -> <<[k |-> "text", v |-> dom[n].lo]>>
       [] dom[n].k = "comment" -> <<[k |-> "comment", v |-> dom[n].lo]>>
HtmlEvents(dom) == DomEvents(dom, 1)
\* End events at the root are tolerated by the Parser contract: compare streams without them
RECURSIVE StripSurplusEnd(_, _, _)
StripSurplusEnd(es, i, depth) ==
  IF i > Len(es) THEN <<>>
  ELSE IF es[i].k = "end" /\ depth = 0 THEN StripSurplusEnd(es, i + 1, 0)
  ELSE <<es[i]>> \o StripSurplusEnd(es, i + 1, IF es[i].k = "elem" THEN depth + 1 ELSE IF es[i].k = "end" THEN depth - 1 ELSE depth)
SameTree(es, want) == StripSurplusEnd(es, 1, 0) = want

(***************************************************************************)
(* htmlParser.Pull: state [cur, attrs, attrPos, selfClose, emitted, crawl]  *)
(***************************************************************************)
H0 == [cur |-> 1, pend |-> <<>>, selfClose |-> FALSE, emitted |-> FALSE, crawl |-> FALSE]
\* returns [h |-> new state, ev |-> event | [k |-> "eof"] | [k |-> "err"]]
RECURSIVE PullHtml(_, _, _)
PullHtml(dom, h, fuel) ==
  IF fuel = 0 THEN [h |-> h, ev |-> [k |-> "err"]]
  ELSE IF h.pend # <<>> THEN [h |-> [h EXCEPT !.pend = Tail(h.pend)], ev |-> Head(h.pend)]
  ELSE IF h.selfClose THEN [h |-> [h EXCEPT !.selfClose = FALSE], ev |-> [k |-> "end"]]
  ELSE LET h1 == IF h.emitted
                 THEN IF FirstChild(dom, h.cur) # 0 THEN [h EXCEPT !.emitted = FALSE, !.cur = FirstChild(dom, h.cur)]
                      ELSE IF NextSibling(dom, h.cur) # 0 THEN [h EXCEPT !.emitted = FALSE, !.cur = NextSibling(dom, h.cur)]
                      ELSE [h EXCEPT !.emitted = FALSE, !.crawl = TRUE]
                 ELSE h
       IN IF h1.crawl THEN
            IF dom[h1.cur].p = 0 THEN [h |-> [h1 EXCEPT !.crawl = FALSE], ev |-> [k |-> "eof"]]
            ELSE LET par == dom[h1.cur].p IN
                 IF NextSibling(dom, par) = 0 THEN [h |-> [h1 EXCEPT !.cur = par, !.crawl = TRUE], ev |-> [k |-> "end"]]
                 ELSE [h |-> [h1 EXCEPT !.cur = NextSibling(dom, par), !.crawl = FALSE], ev |-> [k |-> "end"]]
          ELSE LET n == h1.cur IN
            CASE dom[n].k = "doc" ->
                   IF FirstChild(dom, n) = 0 \/ dom[FirstChild(dom, n)].k # "doctype" THEN [h |-> h1, ev |-> [k |-> "err"]]
                   ELSE PullHtml(dom, [h1 EXCEPT !.cur = FirstChild(dom, n)], fuel - 1)
              [] dom[n].k = "doctype" ->
                   IF NextSibling(dom, n) = 0 THEN [h |-> h1, ev |-> [k |-> "err"]]   \* (the code would dereference nil)
                   ELSE PullHtml(dom, [h1 EXCEPT !.cur = NextSibling(dom, n)], fuel - 1)
              [] dom[n].k = "elem" ->
                   [h |-> [h1 EXCEPT !.pend = AttrEvents(dom[n].at), !.emitted = TRUE, !.selfClose = (FirstChild(dom, n) = 0)],
                    ev |-> [k |-> "elem", sp |-> <<>>, lo |-> LocalPart(dom[n].lo)]]
              [] dom[n].k = "text" -> [h |-> [h1 EXCEPT !.emitted = TRUE], ev |-> [k |-> "text", v |-> dom[n].lo]]
              [] dom[n].k = "comment" -> [h |-> [h1 EXCEPT !.emitted = TRUE], ev |-> [k |-> "comment", v |-> dom[n].lo]]
=============================================================================
