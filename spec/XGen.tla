------------------------------- MODULE XGen -------------------------------
(* Constructors for expression ASTs and the JSON shape of emitted cases,    *)
(* shared by all generator and model-checking modules.                        *)
(***************************************************************************)
EXTENDS XPath, Json

CONSTANT OpenFx   \* the open known-finding switches (set of strings); {} = the ideal semantics only

U1 == <<"u", "1">>
U2 == <<"u", "2">>
Nm(sp, lo) == [sp |-> sp, lo |-> lo]

T_node == [k |-> "node"]
T_text == [k |-> "text"]
T_comment == [k |-> "comment"]
T_pi == [k |-> "pi"]
T_pit(t) == [k |-> "pit", target |-> t]
T_any == [k |-> "any"]
T_name(pre, lo) == [k |-> "name", pre |-> pre, lo |-> lo]
T_nsany(pre) == [k |-> "nsany", pre |-> pre]
T_localany(lo) == [k |-> "localany", lo |-> lo]

StepP(ax, test, preds) == [ax |-> ax, test |-> test, preds |-> preds]
Step(ax, test) == StepP(ax, test, <<>>)
FnStep(call) == [fn |-> call]
Path(abs, steps) == [op |-> "path", abs |-> abs, steps |-> steps]
Rel(steps) == Path(FALSE, steps)
Abs(steps) == Path(TRUE, steps)
Filter(prim, preds, steps) == [op |-> "filter", prim |-> prim, preds |-> preds, steps |-> steps]
Bin(op, l, r) == [op |-> op, l |-> l, r |-> r]
NegE(a) == [op |-> "neg", a |-> a]
NumE(a) == [op |-> "num", v |-> a]
NumText(s) == [op |-> "numtext", s |-> s]
IntE(k) == NumE(NInt(k))
Lit(s) == [op |-> "lit", s |-> s]
Var(pre, lo) == [op |-> "var", pre |-> pre, lo |-> lo]
Call(lo, args) == [op |-> "call", pre |-> "", lo |-> lo, args |-> args]
CallP(pre, lo, args) == [op |-> "call", pre |-> pre, lo |-> lo, args |-> args]
Self == Step("self", T_node)
DoS == Step("descendant-or-self", T_node)    \* the step "//" abbreviates

EmptyEnv == [ns |-> <<>>, vars |-> <<>>, funcs |-> <<>>]
EnvNs(ns) == [ns |-> ns, vars |-> <<>>, funcs |-> <<>>]

\* JSON shape of a value: node-sets as ascending id sequences
JV(v) == IF v.t = "ns" THEN [t |-> "ns", v |-> Asc(v.v)] ELSE v
WithFx(env) == [ns |-> env.ns, vars |-> env.vars, funcs |-> env.funcs, fx |-> OpenFx]
\* r: the value the property demands; k (only when it differs): the value the code is recorded to
\* produce instead under the open known findings
Case(dd, env, n, e) ==
  LET r == JV(Eval(dd, env, e, Ctx(n))) base == [ctx |-> n, e |-> e, r |-> r, env |-> env] IN
  IF ~Affected(e, OpenFx) THEN base
  ELSE LET k == JV(Eval(dd, WithFx(env), e, Ctx(n))) IN IF k = r THEN base ELSE [ctx |-> n, e |-> e, r |-> r, env |-> env, k |-> k]
\* one output line: a document, an environment and the cases evaluated on it
EmitLine(fam, dd, env, cases) == PrintT(ToJson([fam |-> fam, doc |-> dd, env |-> env, cases |-> cases]))
SeqOfSet(S) == SetToSeq(S)
\* compact form: the expression pool is printed once (by an ASSUME), a case is
\* <<context node, index into the pool, expected value>>
EmitPool(fam, pool) == PrintT(ToJson([fam |-> fam, pool |-> pool]))
CCase(dd, env, n, pool, i) ==
  LET r == JV(Eval(dd, env, pool[i], Ctx(n))) IN
  IF ~Affected(pool[i], OpenFx) THEN <<n, i, r>>
  ELSE LET k == JV(Eval(dd, WithFx(env), pool[i], Ctx(n))) IN IF k = r THEN <<n, i, r>> ELSE <<n, i, r, k>>
AllCCases(dd, env, pool) == [k \in 1..(Len(dd) * Len(pool)) |->
   CCase(dd, env, ((k - 1) \div Len(pool)) + 1, pool, ((k - 1) % Len(pool)) + 1)]
=============================================================================
