------------------------------- MODULE XStr -------------------------------
(* Strings are sequences of abstract characters (Unicode code points).       *)
(* A character is a TLA+ string: printable ASCII characters are themselves   *)
(* ("a", "-", "1"); the others have symbolic codes which the Go harness maps  *)
(* to concrete runes: "sp" "tab" "nl" "cr" (the four XML white-space          *)
(* characters), "nbsp" (a Unicode space that is NOT XML white space), "w2"    *)
(* "w3" "w4" (2-, 3-, 4-byte UTF-8 characters), "cm" (a combining mark),      *)
(* "wsl" (a letter whose code point ends in the byte of a white-space char).  *)
(* Positions and lengths are indices into the sequence, never bytes.          *)
(***************************************************************************)
EXTENDS XNum, SequencesExt

WS == {"sp", "tab", "nl", "cr"}
DigitChars == <<"0", "1", "2", "3", "4", "5", "6", "7", "8", "9">>
IsDigit(c) == \E i \in 1..10 : DigitChars[i] = c
DigitVal(c) == (CHOOSE i \in 1..10 : DigitChars[i] = c) - 1
DigitChar(k) == DigitChars[k + 1]

Upper == <<"A","B","C","D","E","F","G","H","I","J","K","L","M","N","O","P","Q","R","S","T","U","V","W","X","Y","Z">>
Lower == <<"a","b","c","d","e","f","g","h","i","j","k","l","m","n","o","p","q","r","s","t","u","v","w","x","y","z">>
ToLowerC(c) == IF \E i \in 1..26 : Upper[i] = c THEN Lower[CHOOSE i \in 1..26 : Upper[i] = c] ELSE c
ToLowerS(s) == [i \in 1..Len(s) |-> ToLowerC(s[i])]

Str(s) == s  \* documentation aid: a literal sequence of characters
Cat(s, t) == s \o t

StartsWithS(s, p) == Len(p) <= Len(s) /\ SubSeq(s, 1, Len(p)) = p
\* smallest index at which t occurs in s, 0 if none ("" occurs at 1)
IndexOf(s, t) == IF \E i \in 1..(Len(s) - Len(t) + 1) : SubSeq(s, i, i + Len(t) - 1) = t
                 THEN CHOOSE i \in 1..(Len(s) - Len(t) + 1) :
                        /\ SubSeq(s, i, i + Len(t) - 1) = t
                        /\ \A j \in 1..(i - 1) : SubSeq(s, j, j + Len(t) - 1) # t
                 ELSE 0
ContainsS(s, t) == IndexOf(s, t) > 0
SubstringBefore(s, t) == LET i == IndexOf(s, t) IN IF i = 0 THEN <<>> ELSE SubSeq(s, 1, i - 1)
SubstringAfter(s, t) == LET i == IndexOf(s, t) IN IF i = 0 THEN <<>> ELSE SubSeq(s, i + Len(t), Len(s))

\* substring(s, p [, l]) : characters at positions q with round(p) <= q < round(p) + round(l)
\* hasLen = FALSE for the two-argument form.  Returns <<"?">> marker never: unknown numbers are
\* handled by the caller.
Substring(s, p, hasLen, l) ==
  LET rp == Round(p)
      hi == IF hasLen THEN Add(rp, Round(l)) ELSE Nan
      Keep(q) == NumLe(rp, NInt(q)) /\ (~hasLen \/ NumLt(NInt(q), hi))
  IN SelectSeq([q \in 1..Len(s) |-> [q |-> q, ch |-> s[q]]], LAMBDA x : Keep(x.q))
Chs(xs) == [i \in 1..Len(xs) |-> xs[i].ch]

RECURSIVE NormWS(_, _, _)
\* collapse runs of XML white space to one "sp", strip leading/trailing
NormWS(s, i, pendingSpace) ==
  IF i > Len(s) THEN <<>>
  ELSE IF s[i] \in WS THEN NormWS(s, i + 1, TRUE)
  ELSE (IF pendingSpace THEN <<"sp">> ELSE <<>>) \o <<s[i]>> \o NormWS(s, i + 1, FALSE)
RECURSIVE SkipWS(_, _)
SkipWS(s, i) == IF i <= Len(s) /\ s[i] \in WS THEN SkipWS(s, i + 1) ELSE i
NormalizeSpace(s) == NormWS(s, SkipWS(s, 1), FALSE)

\* translate(s, from, to): each character mapped by its FIRST occurrence in from
FirstIdx(from, c) == IF \E i \in 1..Len(from) : from[i] = c
                     THEN CHOOSE i \in 1..Len(from) : from[i] = c /\ \A j \in 1..(i - 1) : from[j] # c
                     ELSE 0
RECURSIVE Translate(_, _, _)
Translate(s, from, to) ==
  IF s = <<>> THEN <<>>
  ELSE LET k == FirstIdx(from, Head(s))
           h == IF k = 0 THEN <<Head(s)>> ELSE IF k <= Len(to) THEN <<to[k]>> ELSE <<>>
       IN h \o Translate(Tail(s), from, to)

(***************************************************************************)
(* string -> number (XPath 1.0 section 4.4, number()): optional white      *)
(* space, optional '-', Number, optional white space; anything else NaN.   *)
(* Number ::= Digits ('.' Digits?)? | '.' Digits                            *)
(***************************************************************************)
RECURSIVE TrimR(_)
TrimR(s) == IF s # <<>> /\ s[Len(s)] \in WS THEN TrimR(SubSeq(s, 1, Len(s) - 1)) ELSE s
TrimWS(s) == TrimR(SubSeq(s, SkipWS(s, 1), Len(s)))

AllDigits(s) == \A i \in 1..Len(s) : IsDigit(s[i])
RECURSIVE DigitsVal(_)
DigitsVal(s) == IF s = <<>> THEN 0 ELSE DigitsVal(SubSeq(s, 1, Len(s) - 1)) * 10 + DigitVal(s[Len(s)])
RECURSIVE Pow10(_)
Pow10(k) == IF k = 0 THEN 1 ELSE 10 * Pow10(k - 1)

\* unsigned numeral?  (after trimming and removing the sign)
DotPos(s) == IF \E i \in 1..Len(s) : s[i] = "." THEN CHOOSE i \in 1..Len(s) : s[i] = "." /\ \A j \in 1..(i-1) : s[j] # "." ELSE 0
IsUNumeral(s) ==
  LET p == DotPos(s) IN
  IF p = 0 THEN s # <<>> /\ AllDigits(s)
  ELSE LET ip == SubSeq(s, 1, p - 1)
           fp == SubSeq(s, p + 1, Len(s))
       IN AllDigits(ip) /\ AllDigits(fp) /\ (ip # <<>> \/ fp # <<>>) /\ (ip = <<>> => fp # <<>>)
UNumeralVal(s, sign) == \* sign in {1,-1}; value as numeral
  LET p == DotPos(s)
      ip == IF p = 0 THEN s ELSE SubSeq(s, 1, p - 1)
      fp == IF p = 0 THEN <<>> ELSE SubSeq(s, p + 1, Len(s))
      den == Pow10(Len(fp))
      num == DigitsVal(ip) * den + DigitsVal(fp)
  IN Mk(sign * num, den, sign)
\* "Z400" stands for a run of 400 zeros (the harness writes them out): a digit string with a non-zero leading digit
\* that contains it is an integer numeral of more than 400 digits - far beyond the largest double - and converts to
\* the nearest IEEE value, an infinity.  (Such strings occur only as node values in the number-conversion families.)
HasZ(s) == \E i \in 1..Len(s) : s[i] = "Z400"
\* "XMLNS" stands for the 36 characters of http://www.w3.org/XML/1998/namespace (the string-value of every xml namespace node)
HasX(s) == \E i \in 1..Len(s) : s[i] = "XMLNS"
HasWide(s) == HasZ(s) \/ HasX(s)
\* the number of characters the abstract string stands for
CharCount(s) == Len(s) + 399 * Cardinality({i \in 1..Len(s) : s[i] = "Z400"}) + 35 * Cardinality({i \in 1..Len(s) : s[i] = "XMLNS"})
\* searching b in a (or mapping the characters of b in a) is decided character by character only when no match can reach into
\* a symbol that stands for many characters: b has none and, when a has a run of zeros, no "0" either; when a has the namespace
\* name, b is empty (any letter, digit, '/', ':' or '.' may match inside it)
ZSafe(a, b) == ~HasWide(b) /\ (HasZ(a) => \A i \in 1..Len(b) : b[i] # "0") /\ (HasX(a) => b = <<>>)
ZNumeral(u) == u # <<>> /\ IsDigit(u[1]) /\ u[1] # "0" /\ \A i \in 1..Len(u) : IsDigit(u[i]) \/ u[i] = "Z400"
StrToNum(str) ==
  LET t == TrimWS(str)
      neg == t # <<>> /\ t[1] = "-"
      u == IF neg THEN Tail(t) ELSE t
  IN IF HasZ(u) THEN (IF ZNumeral(u) THEN Inf(IF neg THEN -1 ELSE 1) ELSE Unk)
     ELSE IF IsUNumeral(u) /\ Len(u) <= 8 THEN UNumeralVal(u, IF neg THEN -1 ELSE 1)
     ELSE IF IsUNumeral(u) THEN Unk ELSE Nan

(***************************************************************************)
(* number -> string (section 4.2, string()).                                *)
(***************************************************************************)
RECURSIVE NatChars(_)
NatChars(k) == IF k < 10 THEN <<DigitChar(k)>> ELSE NatChars(k \div 10) \o <<DigitChar(k % 10)>>
RECURSIVE FracChars(_, _)
FracChars(r, d) == IF r = 0 THEN <<>> ELSE <<DigitChar((r * 10) \div d)>> \o FracChars((r * 10) % d, d)
UnkStr == <<"?unk">>   \* marker for "not determined by the specification"
NumToStr(a) ==
  CASE a.c = "nan" -> <<"N", "a", "N">>
    [] a.c \in {"unk", "pow2", "named"} -> UnkStr     \* (a pow2 is printed through the "numstr" obligation, see XPath!string)
    [] a.c = "inf" -> (IF a.s = -1 THEN <<"-">> ELSE <<>>) \o <<"I", "n", "f", "i", "n", "i", "t", "y">>
    [] a.c = "zero" -> <<"0">>
    [] OTHER -> IF ~IsPow2(a.d) THEN UnkStr
                ELSE (IF a.s = -1 THEN <<"-">> ELSE <<>>) \o NatChars(a.n \div a.d)
                     \o (IF a.d = 1 THEN <<>> ELSE <<".">> \o FracChars(a.n % a.d, a.d))
IsUnkStr(s) == \E i \in 1..Len(s) : s[i] = "?unk"

\* the shortest numeral that reads back to the same double, as ReadJson writes a JSON number: plain decimal
\* notation unless the exponent form (d.ddde+XX, used only for decimal exponents below -4 or from 6 on) is shorter
RECURSIVE StripLeadZ(_)
StripLeadZ(s) == IF s # <<>> /\ s[1] = "0" THEN StripLeadZ(Tail(s)) ELSE s
RECURSIVE StripTrailZ(_)
StripTrailZ(s) == IF s # <<>> /\ s[Len(s)] = "0" THEN StripTrailZ(SubSeq(s, 1, Len(s) - 1)) ELSE s
ShortestNumeral(a) ==
  IF a.c # "fin" \/ ~IsPow2(a.d) THEN NumToStr(a)
  ELSE LET ip == NatChars(a.n \div a.d)
           fp == FracChars(a.n % a.d, a.d)
           intZero == (a.n \div a.d) = 0
           sig == StripTrailZ(IF intZero THEN StripLeadZ(fp) ELSE ip \o fp)
           m == Len(sig)
           exp == IF intZero THEN -(Len(fp) - Len(StripLeadZ(fp)) + 1) ELSE Len(ip) - 1
           ae == IF exp < 0 THEN -exp ELSE exp
           plain == NumToStr(a)
           sci == (IF a.s = -1 THEN <<"-">> ELSE <<>>) \o <<sig[1]>> \o (IF m > 1 THEN <<".">> \o Tail(sig) ELSE <<>>)
                  \o <<"e", IF exp < 0 THEN "-" ELSE "+">> \o (IF ae < 10 THEN <<"0">> ELSE <<>>) \o NatChars(ae)
       IN IF (exp < -4 \/ exp >= 6) /\ Len(sci) < Len(plain) THEN sci ELSE plain
=============================================================================
