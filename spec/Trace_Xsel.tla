---------------------------- MODULE Trace_Xsel ----------------------------
(* Trace specification: judges a trace recorded from the real library       *)
(* (one NDJSON event per public call, logged at its return) against the     *)
(* XPath specification.  The state is what a client program of the library  *)
(* holds: the documents it has loaded.  Each trace line is consumed by one   *)
(* action; an "exec" line carries the call's arguments and the observed      *)
(* result, which is compared with Eval.  Instead of merely being disabled on *)
(* a mismatch the action records a verdict (printed as JSON), so a rejection *)
(* comes with the expected value.                                           *)
(*                                                                          *)
(* Events  {"ev":"doc","h":H,"doc":D}                                       *)
(*         {"ev":"exec","h":H,"ctx":N,"env":ENV,"e":AST,"res":OBS}          *)
(* OBS     {"t":"ns","seq":[ids],"pos":[Pos()...]} | {"t":"num","v":NUM} |  *)
(*         {"t":"str","v":[chars]} | {"t":"bool","v":B} | {"t":"err"} |     *)
(*         {"t":"panic"} | {"t":"nil"}                                      *)
(***************************************************************************)
EXTENDS Unmarshal, Json, IOUtils, TLC

CONSTANT OpenFx   \* the open known-finding switches
Trace == ndJsonDeserialize(IOEnv.TRACE)

VARIABLES l,      \* next trace line
          docs,   \* handle -> document
          nbad,   \* verdicts that are not "ok"/"skip" so far
          snap    \* what the client held after the previous call: [held |-> Seq(Seq(id)), hash |-> document digest] or <<>>

vars == <<l, docs, nbad, snap>>

Init == l = 1 /\ docs = <<>> /\ nbad = 0 /\ snap = <<>>

Has(r, f) == f \in DOMAIN r
\* JSON gives [] for an empty object: normalise environments
NormEnv(env) == [ns |-> IF Has(env, "ns") THEN env.ns ELSE <<>>,
                 vars |-> IF Has(env, "vars") THEN env.vars ELSE <<>>,
                 funcs |-> IF Has(env, "funcs") THEN env.funcs ELSE <<>>]

\* Pos() values agree with document order (namespace nodes of one element excepted)
PosConsistent(d, seq, pos) ==
  \A i \in 1..(Len(seq) - 1) :
     /\ pos[i] # pos[i + 1]
     /\ (d[seq[i]].k = "ns" /\ d[seq[i + 1]].k = "ns" /\ d[seq[i]].p = d[seq[i + 1]].p)
          \/ ((seq[i] < seq[i + 1]) <=> (pos[i] < pos[i + 1]))
IsAscP(p) == \A i \in 1..(Len(p) - 1) : p[i] < p[i + 1]
IsDscP(p) == \A i \in 1..(Len(p) - 1) : p[i] > p[i + 1]

\* verdict for one exec event: [val |-> "ok"|"bad"|"skip", ord |-> "ok"|"bad"|"na"]
JudgeEnv(d, e, want, res, env) ==
  IF IsErr(want) THEN
    IF want.why \in SkipWhys THEN [val |-> "skip", ord |-> "na"]
    ELSE [val |-> IF res.t = "err" THEN "ok" ELSE "bad", ord |-> "na"]
  ELSE IF res.t # want.t THEN [val |-> "bad", ord |-> "na"]
  ELSE IF want.t = "ns" THEN
    [val |-> IF ToSet(res.seq) = want.v THEN "ok" ELSE "bad",
     ord |-> IF /\ \A i \in 1..Len(res.seq) : res.seq[i] \in Ids(d)             \* only nodes of the queried document
                /\ Len(res.seq) = Cardinality(ToSet(res.seq))                    \* duplicate-free
                /\ PosConsistent(d, res.seq, res.pos)
                /\ IF e.op = "union" \/ ~(UsesReverseAxis(e) \/ MayHandOnOrder(e, env)) THEN IsAscP(res.pos) ELSE (IsAscP(res.pos) \/ IsDscP(res.pos))
             THEN "ok" ELSE "bad"]
  ELSE [val |-> IF res.v = want.v THEN "ok" ELSE "bad", ord |-> "na"]

JVT(v) == IF v.t = "ns" THEN [t |-> "ns", v |-> Asc(v.v)] ELSE v

IsEvent(e) == l <= Len(Trace) /\ Trace[l].ev = e /\ l' = l + 1

LoadDoc ==
  /\ IsEvent("doc")
  /\ WellFormed(Trace[l].doc)
  /\ docs' = [h \in (DOMAIN docs) \cup {Trace[l].h} |-> IF h = Trace[l].h THEN Trace[l].doc ELSE docs[h]]
  /\ snap' = <<>>
  /\ UNCHANGED nbad

\* a document that is not well-formed is a recording error: the line is consumed and flagged
BadDoc ==
  /\ IsEvent("doc")
  /\ ~WellFormed(Trace[l].doc)
  /\ PrintT(ToJson([verdict |-> "bad-doc", l |-> l]))
  /\ nbad' = nbad + 1
  /\ UNCHANGED <<docs, snap>>

\* the recorder found that the tree the store built from a conforming event stream is not the document
\* (a node missing, misplaced or mislabelled): every property quantifies over the document's nodes, so the
\* event is a rejection, reported with the recorder's description
TreeFault ==
  /\ IsEvent("treefault")
  /\ PrintT(ToJson([verdict |-> [val |-> "ok", ord |-> "ok", frame |-> "ok", tree |-> "bad"], l |-> l, want |-> [t |-> "none"]]))
  /\ nbad' = nbad + 1
  /\ UNCHANGED <<docs, snap>>

\* C13 frame condition: everything the client held before the call (every node-set, element by
\* element, and the document, by digest) is unchanged after it
\* ... and the binding maps handed to the call (namespaces, variables, functions: digests taken before and after)
BindingsKept(ev) == (~Has(ev, "envpre") \/ ev.envpre = ev.envpost)
                    \* ... and the call repeated at once with the same expression, node and bindings gave the same result
                    /\ (~Has(ev, "again") \/ ev.again)
FrameOK(ev) == BindingsKept(ev) /\ (snap = <<>> \/ ~Has(ev, "held") \/
   (/\ Len(ev.held) >= Len(snap.held)
    /\ \A i \in 1..Len(snap.held) : ev.held[i] = snap.held[i]
    /\ ev.dochash = snap.hash))
SnapAfter(ev) == IF Has(ev, "held") THEN [held |-> ev.held, hash |-> ev.dochash] ELSE snap

\* the thin wrappers: ExecAsString = string(result), ExecAsNumber = number(result), ExecAsNodeset = the
\* result itself if it is a node-set and an error otherwise ("api": {"s": chars, "n": numeral, "ns": BOOLEAN})
ApiOK(d, ev, want) ==
  ~Has(ev, "api") \/ IsErr(want) \/
  LET ws == ToStr(d, want) wn == ToNum(d, want) IN
  /\ (IsUnkStr(ws) \/ ev.api.s = ws)
  /\ (IsUnk(wn) \/ ev.api.n = wn)
  /\ (ev.api.ns <=> want.t = "ns")

ExecRet ==
  /\ IsEvent("exec")
  /\ LET ev == Trace[l]
         d == docs[ev.h]
         env == NormEnv(ev.env)
         want == Eval(d, env, ev.e, Ctx(ev.ctx))
         v == JudgeEnv(d, ev.e, want, ev.res, env)
         bad0 == v.val = "bad" \/ v.ord = "bad"
         \* a deviation that is exactly the recorded behaviour of an open known finding
         known == bad0 /\ Affected(ev.e, OpenFx) /\
                  LET kv == JudgeEnv(d, ev.e, Eval(d, [ns |-> env.ns, vars |-> env.vars, funcs |-> env.funcs, fx |-> OpenFx], ev.e, Ctx(ev.ctx)), ev.res, env)
                  IN kv.val # "bad" /\ kv.ord # "bad"
         api == bad0 \/ known \/ ApiOK(d, ev, want)
         bad == (bad0 /\ ~known) \/ ~FrameOK(ev) \/ ~api
     IN /\ (bad => PrintT(ToJson([verdict |-> [val |-> IF known THEN "ok" ELSE IF api THEN v.val ELSE "bad", ord |-> IF known THEN "ok" ELSE v.ord,
                                               frame |-> IF FrameOK(ev) THEN "ok" ELSE "bad"], l |-> l, want |-> JVT(want)])))
        /\ (known => PrintT(ToJson([verdict |-> "known", l |-> l, fx |-> OpenFx])))
        /\ ((v.val = "skip") => PrintT(ToJson([verdict |-> "skip", l |-> l])))
        /\ nbad' = nbad + (IF bad THEN 1 ELSE 0)
        /\ snap' = SnapAfter(ev)
  /\ UNCHANGED docs

\* xsel.Unmarshal(result of e from node ctx, target of type T passed as form): the filled target must be
\* what Unmarshal.tla defines, and - like every call - it must leave the document and held node-sets alone
\* {"ev":"unmarshal","h","ctx","env","e","type","form","out": filled value | {"t":"err"} | {"t":"panic"},"held","dochash"}
RECURSIVE SameGV(_, _)
SameGV(w, g) ==   \* type-safe structural equality of filled values (g is what the trace logged)
  /\ "k" \in DOMAIN g /\ g.k = w.k
  /\ CASE w.k \in {"str", "bool", "num"} -> g.v = w.v
       [] w.k = "list" -> Len(g.v) = Len(w.v) /\ (\/ \A i \in 1..Len(w.v) : SameGV(w.v[i], g.v[i])
                                                  \/ (w.rev /\ \A i \in 1..Len(w.v) : SameGV(w.v[Len(w.v) + 1 - i], g.v[i])))
       [] w.k = "rec" -> Len(g.f) = Len(w.f) /\ \A i \in 1..Len(w.f) : SameGV(w.f[i], g.f[i])
       [] OTHER -> TRUE
UnmarshalEv ==
  /\ IsEvent("unmarshal")
  /\ LET ev == Trace[l]
         d == docs[ev.h]
         env == NormEnv(ev.env)
         r == Eval(d, env, ev.e, Ctx(ev.ctx))
         want == IF IsErr(r) THEN UErr(IF r.why \in SkipWhys THEN "unk" ELSE "result") ELSE UnmarshalCall(d, env, ev.form, ev.type, r, MayRev(ev.e))
         undetermined == IsUErr(want) /\ want.why = "unk"
         ok == IF undetermined THEN TRUE
               ELSE IF IsUErr(want) THEN ("t" \in DOMAIN ev.out /\ ev.out.t = "err")
               ELSE SameGV(want, ev.out)
         bad == ~ok \/ ~FrameOK(ev)
     IN /\ (bad => PrintT(ToJson([verdict |-> [val |-> IF ok THEN "ok" ELSE "bad", ord |-> "na", frame |-> IF FrameOK(ev) THEN "ok" ELSE "bad"], l |-> l, want |-> want])))
        /\ (undetermined => PrintT(ToJson([verdict |-> "skip", l |-> l])))
        /\ nbad' = nbad + (IF bad THEN 1 ELSE 0)
        /\ snap' = SnapAfter(ev)
  /\ UNCHANGED docs

\* the client takes a sub-slice of a node-set it holds (no library call): the new node-set is
\* that sub-sequence and nothing else changes
ResliceEv ==
  /\ IsEvent("reslice")
  /\ LET ev == Trace[l]
         ok == /\ FrameOK(ev)
               /\ Len(ev.held) = Len(snap.held) + 1
               /\ ev.held[Len(ev.held)] = SubSeq(snap.held[ev.from], ev.lo + 1, ev.hi)
     IN /\ (~ok => PrintT(ToJson([verdict |-> [val |-> "ok", ord |-> "ok", frame |-> "bad"], l |-> l, want |-> [t |-> "none"]])))
        /\ nbad' = nbad + (IF ok THEN 0 ELSE 1)
        /\ snap' = SnapAfter(ev)
  /\ UNCHANGED docs

Done ==
  /\ l = Len(Trace) + 1
  /\ PrintT(ToJson([verdict |-> "done", lines |-> Len(Trace), bad |-> nbad]))
  /\ l' = l + 1
  /\ UNCHANGED <<docs, nbad, snap>>

Next == LoadDoc \/ BadDoc \/ TreeFault \/ ExecRet \/ UnmarshalEv \/ ResliceEv \/ Done
TraceSpec == Init /\ [][Next]_vars
=============================================================================
