---------------------------- MODULE Trace_Store ----------------------------
(* Trace specification for C10.  Each line is one complete run of           *)
(* store.CreateInMemory on a scripted parser.Parser: the event stream that  *)
(* was fed and a snapshot of every cursor reachable from the returned root  *)
(* (object identity, Pos(), Parent(), the three lists).  The line is        *)
(* accepted when the snapshot mirrors the tree the Store machine builds for *)
(* that stream and satisfies the Cursor contract of store/store.go.         *)
(*                                                                          *)
(* {"ev":"store","evs":[...],"snap":[{"k","sp","lo","v","pos","par","ns":[..],"at":[..],"ch":[..]}...]} *)
(*     snap[o] is the cursor object o; objects are numbered by first visit   *)
(*     of a pre-order traversal, so one object shared by two lists shows.   *)
(* {"ev":"flat","n":N,"nesting":D,"base":B,"max":M,"survived":BOOL}         *)
(*     a long flat stream: call-stack depth samples taken inside Pull()     *)
(***************************************************************************)
EXTENDS HtmlAdapter, JsonAdapter, Json, IOUtils

Trace == ndJsonDeserialize(IOEnv.TRACE)
VARIABLES l, c, nbad
tvars == <<l, c, nbad>>

Lists(S, o) == S[o].ns \o S[o].at \o S[o].ch
Objs(S) == 1..Len(S)
\* every object except the root is listed by exactly one cursor, exactly once
ListedOnce(S) == \A o \in Objs(S) \ {1} :
   Cardinality({<<p, i>> \in Objs(S) \X (1..Len(S)) : i <= Len(Lists(S, p)) /\ Lists(S, p)[i] = o}) = 1
RootNotListed(S) == \A p \in Objs(S) : \A i \in 1..Len(Lists(S, p)) : Lists(S, p)[i] # 1
ParentLinks(S) == \A p \in Objs(S) : \A i \in 1..Len(Lists(S, p)) : S[Lists(S, p)[i]].par = p
PosUnique(S) == \A x \in Objs(S), y \in Objs(S) : x # y => S[x].pos # S[y].pos
RootZero(S) == S[1].pos = 0
RECURSIVE MaxPos(_, _)
MaxPos(S, o) == LET L == Lists(S, o) IN
   IF L = <<>> THEN S[o].pos
   ELSE LET ms == {MaxPos(S, L[i]) : i \in 1..Len(L)} \cup {S[o].pos} IN CHOOSE m \in ms : \A x \in ms : x <= m
\* an element before its namespace nodes, those before its attributes, those before its children,
\* and each of them (with its subtree) before the next
PosOrder(S) == \A o \in Objs(S) : LET L == Lists(S, o) IN
   /\ (L # <<>> => S[o].pos < S[L[1]].pos)
   /\ \A i \in 1..(Len(L) - 1) : MaxPos(S, L[i]) < S[L[i + 1]].pos
LeavesHaveNoLists(S) == \A o \in Objs(S) : S[o].k \notin {"root", "elem"} => Lists(S, o) = <<>>
Contract(S) == RootZero(S) /\ RootNotListed(S) /\ ListedOnce(S) /\ ParentLinks(S) /\ PosUnique(S) /\ LeavesHaveNoLists(S) /\ PosOrder(S)

SameNode(x, n) == x.k = n.k /\ x.sp = n.sp /\ x.lo = n.lo /\ x.v = n.v
RECURSIVE Mirrors(_, _, _, _)
Mirrors(S, D, o, a) ==
  LET at == Asc(AttrsOf(D, a))  ch == Asc(Children(D, a))  ns == NsOf(D, a) IN
  /\ SameNode(S[o], D[a])
  /\ Len(S[o].at) = Len(at) /\ \A i \in 1..Len(at) : Mirrors(S, D, S[o].at[i], at[i])
  /\ Len(S[o].ch) = Len(ch) /\ \A i \in 1..Len(ch) : Mirrors(S, D, S[o].ch[i], ch[i])
  \* namespace nodes: one per binding in scope; their relative order is not constrained
  /\ Len(S[o].ns) = Cardinality(ns)
  /\ \A m \in ns : \E i \in 1..Len(S[o].ns) : SameNode(S[S[o].ns[i]], D[m])

(* Lines are independent, so the trace is judged in NC interleaved chunks:  *)
(* the first step picks a chunk (NC successors, explored in parallel by the *)
(* TLC workers), each chunk then walks its own lines in order.              *)
NC == 16
TInit == l = 0 /\ c = 0 /\ nbad = 0
Fork == c = 0 /\ c' \in 1..NC /\ l' = c' /\ nbad' = 0
IsEvent(e) == c # 0 /\ l >= 1 /\ l <= Len(Trace) /\ Trace[l].ev = e /\ l' = l + NC /\ UNCHANGED c

StoreRun ==
  /\ IsEvent("store")
  /\ LET ev == Trace[l]
         conf == Conforms(ev.evs)
         D == TreeOf(ev.evs)
         S == ev.snap
         ct == S # <<>> /\ Contract(S)
         m == ct /\ Mirrors(S, D, 1, 1)      \* judged only on a snapshot without sharing
         bad == ~conf \/ ~ct \/ ~m
     IN /\ (bad => PrintT(ToJson([verdict |-> [conforms |-> conf, contract |-> ct, mirrors |-> m], l |-> l, want |-> D])))
        /\ nbad' = nbad + (IF bad THEN 1 ELSE 0)

\* stack space bounded by nesting depth, not by the number of nodes
FlatRun ==
  /\ IsEvent("flat")
  /\ LET ev == Trace[l]
         ok == ev.survived /\ (ev.max - ev.base) <= 16 + 8 * ev.nesting
     IN /\ (~ok => PrintT(ToJson([verdict |-> [stack |-> FALSE], l |-> l])))
        /\ nbad' = nbad + (IF ok THEN 0 ELSE 1)

\* C17: the events pulled from parser.ReadHtml must be the mapping of the DOM x/net/html.Parse built
\* {"ev":"html","dom":[...],"pulls":[...]}
HtmlRun ==
  /\ IsEvent("html")
  /\ LET ev == Trace[l]
         want == HtmlEvents(ev.dom)
         ok == SameTree(ev.pulls, want) /\ Conforms(ev.pulls)
     IN /\ (~ok => PrintT(ToJson([verdict |-> [html |-> FALSE], l |-> l, want |-> want])))
        /\ nbad' = nbad + (IF ok THEN 0 ELSE 1)

\* C16: the events pulled from parser.ReadJson must be the documented mapping of the JSON values
\* {"ev":"json","vals":[...],"pulls":[...]}
JsonRun ==
  /\ IsEvent("json")
  /\ LET ev == Trace[l]
         want == DocEvents(ev.vals)
         ok == ev.pulls = want
     IN /\ (~ok => PrintT(ToJson([verdict |-> [json |-> FALSE], l |-> l, want |-> want])))
        /\ nbad' = nbad + (IF ok THEN 0 ELSE 1)

Done ==
  /\ c # 0 /\ l > Len(Trace)
  /\ PrintT(ToJson([verdict |-> "done", chunk |-> c, lines |-> Cardinality({k \in 1..Len(Trace) : k % NC = c % NC}), bad |-> nbad]))
  /\ l' = -1 /\ UNCHANGED <<c, nbad>>

TNext == Fork \/ StoreRun \/ FlatRun \/ HtmlRun \/ JsonRun \/ Done
=============================================================================
