CONSTANTS
  MaxItems = 3
  EmitOn = TRUE
  FullProduct = FALSE
  ItemPool = "all"
INIT Init
NEXT Next
INVARIANTS Refines DataModelOK Emit
