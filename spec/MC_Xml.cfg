CONSTANTS
  MaxItems = 4
  EmitOn = TRUE
  FullProduct = FALSE
INIT Init
NEXT Next
INVARIANTS Refines DataModelOK Emit
