CONSTANTS
  Depth = 2
  Width = 2
  EmitOn = TRUE
INIT Init
NEXT Next
INVARIANTS PrefixOK CompleteAtEOF ContractOK StackBounded Emit
