----------------------------- MODULE Trace_Scale ----------------------------
(* Scale: properties quantified over "every document" also hold for documents *)
(* far larger and deeper than any model checker enumerates.  For three        *)
(* REGULAR document families the value of every query of a fixed pool is a    *)
(* closed form in the size parameter; the harness builds the documents        *)
(* (sizes around powers of two: 63, 64, 65, 511 ... 65537, 70001 ...),        *)
(* evaluates the pool twice and logs what it observed; this specification     *)
(* says what had to be observed.                                              *)
(*                                                                            *)
(* R(N) = <r><x i="1">1</x><x i="2">2</x> ... <x i="N">N</x></r>             *)
(*   {"ev":"scale","n":N,"obs":[per query: {"t":"num","v":k} |                *)
(*      {"t":"ns","count","distinct","asc","dsc","first","last"} (first/last:  *)
(*      the numbers in the first / last node returned, 0 if none)],           *)
(*      "stable": the second evaluation returned the same}                    *)
(* J(D) = {"deep": [[ ... D arrays ... [1] ... ]], "after": 2}                *)
(*   {"ev":"deepjson","depth":D,"arrs","members","after","texts","err"}       *)
(* X(D) = <e>1<e>1 ... <e>1</e> ... a</e>a</e>  (D elements)                  *)
(*   {"ev":"deepxml","depth":D,"len","elems","texts","err"}                   *)
(***************************************************************************)
EXTENDS Integers, Sequences, Json, IOUtils, TLC

Trace == ndJsonDeserialize(IOEnv.TRACE)
VARIABLES l, nbad
vars == <<l, nbad>>
Init == l = 1 /\ nbad = 0

Num(k) == [t |-> "num", v |-> k]
\* a node-set observation: how many nodes, all distinct, in ascending document order, first and last
NsAsc(cnt, first, last) == [t |-> "ns", count |-> cnt, distinct |-> cnt, asc |-> TRUE, first |-> first, last |-> last]
\* reverse-axis results may come in either direction: only monotone is demanded
NsMono(cnt, lo, hi) == [t |-> "mono", count |-> cnt, distinct |-> cnt, lo |-> lo, hi |-> hi]

RECURSIVE DigitsUpTo(_, _, _)
\* total number of decimal digits of 1..n  (p = 10^(d-1) walks the digit lengths d)
DigitsUpTo(n, p, d) == IF n < p THEN 0 ELSE (IF n >= 10 * p THEN 9 * p * d ELSE (n - p + 1) * d) + DigitsUpTo(n, 10 * p, d + 1)

\* the pool, in the order the harness evaluates it (harness/scale.go keeps the same list)
Want(n) == <<
  Num(n),                                              \* 1  count(/r/x)
  NsAsc(n, 1, n),                                      \* 2  /r/x
  NsAsc(n, 1, n),                                      \* 3  //x | //x
  NsAsc((n + 1) \div 2, 1, IF n % 2 = 1 THEN n ELSE n - 1),   \* 4  /r/x[position() mod 2 = 1]
  NsAsc(1, n, n),                                      \* 5  (/r/x)[last()]
  Num(IF n > 60000 THEN 0 ELSE (n * (n + 1)) \div 2),  \* 6  sum(/r/x)            (only judged for n <= 60000: TLC's integers are 32 bits)
  NsMono(n - 1, IF n > 1 THEN 1 ELSE 0, IF n > 1 THEN n - 1 ELSE 0),   \* 7  /r/x[last()]/preceding-sibling::x
  Num(2 * n + 1),                                      \* 8  count(//node())
  NsAsc(1, n, n),                                      \* 9  /r/x[@i = N]
  Num(DigitsUpTo(n, 1, 1)),                            \* 10 string-length(string(/r))
  Num(2 * n),                                          \* 11 count(/r/x/@i | /r/x)
  NsAsc(n, 1, n),                                      \* 12 (/r/x)[. > 0]          (a filter expression over the whole set)
  NsAsc(IF n >= 3 THEN n - 2 ELSE 0, IF n >= 3 THEN 3 ELSE 0, IF n >= 3 THEN n ELSE 0)    \* 13 /r/x[position() > 2]
>>

ObsOK(w, o) ==
  IF w.t = "num" THEN o.t = "num" /\ o.v = w.v
  ELSE IF w.t = "ns" THEN o.t = "ns" /\ o.count = w.count /\ o.distinct = w.distinct /\ (o.count <= 1 \/ o.asc) /\ o.first = w.first /\ o.last = w.last
  ELSE o.t = "ns" /\ o.count = w.count /\ o.distinct = w.distinct /\ (o.count <= 1 \/ o.asc \/ o.dsc)
       /\ ((o.first = w.lo /\ o.last = w.hi) \/ (o.first = w.hi /\ o.last = w.lo))

ScaleDoc ==
  /\ l <= Len(Trace) /\ Trace[l].ev = "scale"
  /\ LET ev == Trace[l]
         w == Want(ev.n)
         \* query 6 overflows TLC's integers beyond 60000: skipped there
         Checked(q) == ~(q = 6 /\ ev.n > 60000)
         bad == {q \in 1..13 : Checked(q) /\ ~ObsOK(w[q], ev.obs[q])}
         ok == bad = {} /\ ev.stable
     IN /\ (~ok => PrintT(ToJson([verdict |-> [queries |-> bad, stable |-> ev.stable], l |-> l, want |-> [q \in bad |-> w[q]]])))
        /\ nbad' = nbad + (IF ok THEN 0 ELSE 1)
  /\ l' = l + 1

DeepJson ==
  /\ l <= Len(Trace) /\ Trace[l].ev = "deepjson"
  /\ LET ev == Trace[l]
         ok == ~ev.err /\ ev.arrs = ev.depth /\ ev.members = 2 /\ ev.after = 2 /\ ev.texts = 2 /\ ev.afterParentIsObj
     IN /\ (~ok => PrintT(ToJson([verdict |-> "deepjson", l |-> l, want |-> [arrs |-> ev.depth, members |-> 2, after |-> 2, texts |-> 2]])))
        /\ nbad' = nbad + (IF ok THEN 0 ELSE 1)
  /\ l' = l + 1

DeepXml ==
  /\ l <= Len(Trace) /\ Trace[l].ev = "deepxml"
  /\ LET ev == Trace[l]
         \* D leading texts "1" and D - 1 trailing texts "a"
         ok == ~ev.err /\ ev.len = 2 * ev.depth - 1 /\ ev.elems = ev.depth /\ ev.texts = 2 * ev.depth - 1 /\ ev.innerLen = 1
     IN /\ (~ok => PrintT(ToJson([verdict |-> "deepxml", l |-> l, want |-> [len |-> 2 * ev.depth - 1, elems |-> ev.depth, texts |-> 2 * ev.depth - 1]])))
        /\ nbad' = nbad + (IF ok THEN 0 ELSE 1)
  /\ l' = l + 1

\* many goroutines walking one very deep tree at once: each evaluation still returns the serial value
\* {"ev":"deepconc","depth":D,"goroutines":G,"rounds":R,"evals","wrong","errors"}
DeepConc ==
  /\ l <= Len(Trace) /\ Trace[l].ev = "deepconc"
  /\ LET ev == Trace[l]
         ok == ev.evals = ev.goroutines * ev.rounds /\ ev.wrong = 0 /\ ev.errors = 0
     IN /\ (~ok => PrintT(ToJson([verdict |-> "deepconc", l |-> l, want |-> [evals |-> ev.goroutines * ev.rounds, wrong |-> 0, errors |-> 0]])))
        /\ nbad' = nbad + (IF ok THEN 0 ELSE 1)
  /\ l' = l + 1

\* the same query on the same tree R times (compiled once, and compiled afresh): ONE value, bit for bit
\* {"ev":"repeat","n":N,"runs":R,"queries":Q,"distinct":[d1..dQ]}   (di = number of different results of query i)
Repeat ==
  /\ l <= Len(Trace) /\ Trace[l].ev = "repeat"
  /\ LET ev == Trace[l]
         bad == {q \in 1..ev.queries : ev.distinct[q] # 1}
         ok == Len(ev.distinct) = ev.queries /\ bad = {}
     IN /\ (~ok => PrintT(ToJson([verdict |-> "repeat", l |-> l, queries |-> bad, want |-> [distinct |-> 1]])))
        /\ nbad' = nbad + (IF ok THEN 0 ELSE 1)
  /\ l' = l + 1

\* K prefixes declared on the root element a, the xml prefix declared explicitly among them (or not): a and its child b each have
\* K + 1 namespace nodes - 2(K + 1) different nodes at different positions, ascending; the union of the two sets has them all
\* {"ev":"nsdecl","k":K,"at":J,"rootNs","childNs","all","distinctPos","asc","union"}
NsDecl ==
  /\ l <= Len(Trace) /\ Trace[l].ev = "nsdecl"
  /\ LET ev == Trace[l]
         n == ev.k + 1
         ok == ev.rootNs = n /\ ev.childNs = n /\ ev.all = 2 * n /\ ev.distinctPos = 2 * n /\ ev.asc /\ ev.union = 2 * n
     IN /\ (~ok => PrintT(ToJson([verdict |-> "nsdecl", l |-> l, want |-> [rootNs |-> n, childNs |-> n, all |-> 2 * n, distinctPos |-> 2 * n, asc |-> TRUE, union |-> 2 * n]])))
        /\ nbad' = nbad + (IF ok THEN 0 ELSE 1)
  /\ l' = l + 1

Done ==
  /\ l = Len(Trace) + 1
  /\ PrintT(ToJson([verdict |-> "done", lines |-> Len(Trace), bad |-> nbad]))
  /\ l' = l + 1 /\ UNCHANGED nbad
Next == ScaleDoc \/ DeepJson \/ DeepXml \/ DeepConc \/ Repeat \/ NsDecl \/ Done
=============================================================================
