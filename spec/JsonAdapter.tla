----------------------------- MODULE JsonAdapter ----------------------------
(* C16: parser/json.go as a state machine, and the mapping it must realise.  *)
(*                                                                          *)
(* JSON values   [t |-> "obj", m |-> Seq([k |-> chars, v |-> value])]       *)
(*               [t |-> "arr", a |-> Seq(value)]                            *)
(*               [t |-> "str", s |-> chars]  [t |-> "num", n |-> numeral]   *)
(*               [t |-> "bool", b |-> BOOLEAN]  [t |-> "null"]              *)
(* The documented mapping (README): an object is an element #obj whose      *)
(* children are one element per member, named by the key, holding the       *)
(* mapping of the value; an array is #arr holding the mappings of its       *)
(* items; every scalar is ONE text node.  JsonEvents gives it as a Parser   *)
(* event stream; the tree is then StoreFn!TreeOf of that stream.            *)
(*                                                                          *)
(* The machine: the decoder's token stream is consumed by Pull, which keeps *)
(* a stack of [st, onField, emitEnd] exactly like jsonParser.stateStack.    *)
(***************************************************************************)
EXTENDS StoreFn, XStr

Hash == "#"
ObjName == <<Hash, "o", "b", "j">>
ArrName == <<Hash, "a", "r", "r">>
TrueS == <<"t", "r", "u", "e">>
FalseS == <<"f", "a", "l", "s", "e">>
NullS == <<"n", "u", "l", "l">>
ElemEv(lo) == [k |-> "elem", sp |-> <<>>, lo |-> lo]
TextEv(v) == [k |-> "text", v |-> v]
EndEv == [k |-> "end"]
\* the text of a JSON number: the shortest numeral that reads back to the same double
NumText(n) == IF n.c = "zero" /\ n.s = -1 THEN <<"-", "0">> ELSE ShortestNumeral(n)
ScalarText(v) == CASE v.t = "str" -> v.s [] v.t = "num" -> NumText(v.n) [] v.t = "bool" -> (IF v.b THEN TrueS ELSE FalseS) [] v.t = "null" -> NullS

RECURSIVE JsonEvents(_)
JsonEvents(v) ==
  CASE v.t = "obj" -> <<ElemEv(ObjName)>> \o Flatten([i \in 1..Len(v.m) |-> <<ElemEv(v.m[i].k)>> \o JsonEvents(v.m[i].v) \o <<EndEv>>]) \o <<EndEv>>
    [] v.t = "arr" -> <<ElemEv(ArrName)>> \o Flatten([i \in 1..Len(v.a) |-> JsonEvents(v.a[i])]) \o <<EndEv>>
    [] OTHER -> <<TextEv(ScalarText(v))>>
\* several top-level values in one text
DocEvents(vs) == Flatten([i \in 1..Len(vs) |-> JsonEvents(vs[i])])

(***************************************************************************)
(* tokens, as json.Decoder.Token delivers them: delimiters and scalars     *)
(* (keys arrive as string tokens)                                          *)
(***************************************************************************)
Delim(c) == [d |-> c]
Scalar(v) == [d |-> "", val |-> ScalarText(v)]
RECURSIVE Tokens(_)
Tokens(v) ==
  CASE v.t = "obj" -> <<Delim("{")>> \o Flatten([i \in 1..Len(v.m) |-> <<[d |-> "", val |-> v.m[i].k]>> \o Tokens(v.m[i].v)]) \o <<Delim("}")>>
    [] v.t = "arr" -> <<Delim("[")>> \o Flatten([i \in 1..Len(v.a) |-> Tokens(v.a[i])]) \o <<Delim("]")>>
    [] OTHER -> <<Scalar(v)>>
DocTokens(vs) == Flatten([i \in 1..Len(vs) |-> Tokens(vs[i])])

(***************************************************************************)
(* jsonParser.Pull                                                         *)
(***************************************************************************)
Frame(st) == [st |-> st, onField |-> FALSE, emitEnd |-> FALSE]
TopSt(stack) == IF stack = <<>> THEN "root" ELSE stack[Len(stack)].st
SetTop(stack, f, val) == IF stack = <<>> THEN stack ELSE [stack EXCEPT ![Len(stack)][f] = val]
OnField(stack) == stack # <<>> /\ stack[Len(stack)].onField
EmitEnd(stack) == stack # <<>> /\ stack[Len(stack)].emitEnd
Pop(stack) == SubSeq(stack, 1, Len(stack) - 1)
\* one Pull: [stack, toks] -> [stack, toks, ev] ; ev = [k |-> "eof"] when the decoder is exhausted
PullJson(stack, toks) ==
  IF EmitEnd(stack) THEN [stack |-> SetTop(stack, "emitEnd", FALSE), toks |-> toks, ev |-> EndEv]
  ELSE IF toks = <<>> THEN [stack |-> stack, toks |-> toks, ev |-> [k |-> "eof"]]
  ELSE LET t == Head(toks) rest == Tail(toks) IN
    IF t.d \in {"{", "["} THEN
      LET s1 == IF TopSt(stack) = "object" THEN SetTop(stack, "onField", TRUE) ELSE stack
          s2 == Append(s1, Frame(IF t.d = "{" THEN "object" ELSE "array"))
          s3 == IF t.d = "{" THEN SetTop(s2, "onField", TRUE) ELSE s2
      IN [stack |-> s3, toks |-> rest, ev |-> ElemEv(IF t.d = "{" THEN ObjName ELSE ArrName)]
    ELSE IF t.d \in {"}", "]"} THEN
      LET s1 == Pop(stack)
          s2 == IF OnField(s1) THEN SetTop(s1, "emitEnd", TRUE) ELSE s1
      IN [stack |-> s2, toks |-> rest, ev |-> EndEv]
    ELSE IF TopSt(stack) = "object" /\ OnField(stack) THEN
      [stack |-> SetTop(stack, "onField", FALSE), toks |-> rest, ev |-> ElemEv(t.val)]
    ELSE IF TopSt(stack) = "object" THEN
      [stack |-> SetTop(SetTop(stack, "onField", TRUE), "emitEnd", TRUE), toks |-> rest, ev |-> TextEv(t.val)]
    ELSE [stack |-> stack, toks |-> rest, ev |-> TextEv(t.val)]
\* the whole event stream the adapter produces for a token stream
RECURSIVE RunJson(_, _, _)
RunJson(stack, toks, n) ==
  IF n = 0 THEN <<>>   \* fuel (never reached on generated inputs)
  ELSE LET r == PullJson(stack, toks) IN
       IF r.ev.k = "eof" THEN <<>> ELSE <<r.ev>> \o RunJson(r.stack, r.toks, n - 1)
AdapterEvents(vs) == LET ts == DocTokens(vs) IN RunJson(<<>>, ts, 3 * Len(ts) + 3)
=============================================================================
