------------------------------ MODULE MC_Store -----------------------------
(* C10: model of store.CreateInMemory over every conforming event stream    *)
(* within the bound (including namespace overrides, redundant               *)
(* redeclarations, the default namespace, adjacent text events and surplus  *)
(* End events at the root).  Invariants: the machine's own properties; the  *)
(* Emit invariant writes every complete stream with the tree it must build. *)
(***************************************************************************)
EXTENDS Store, Json

CONSTANT EmitOn
U1 == <<"u", "1">>
U2 == <<"u", "2">>
C_ElemNames == {[sp |-> <<>>, lo |-> <<"a">>], [sp |-> U1, lo |-> <<"b">>]}
C_AttrNames == {[sp |-> <<>>, lo |-> <<"x">>]}
C_AttrValues == {<<"1">>}
C_NsDecls == {[lo |-> <<"p">>, v |-> U1], [lo |-> <<"p">>, v |-> U2], [lo |-> <<>>, v |-> U1], [lo |-> <<>>, v |-> <<>>]}
C_Texts == {<<"t">>}
C_Comments == {<<"c">>}
C_PIs == {[lo |-> <<"t">>, v |-> <<"d">>]}

Emit == (EmitOn /\ Complete) => PrintT(ToJson([fam |-> "C10.events", evs |-> evs, doc |-> doc]))
=============================================================================
