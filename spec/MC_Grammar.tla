----------------------------- MODULE MC_Grammar -----------------------------
(* C08 model.  The chooser builds lexeme strings one lexeme at a time (every *)
(* string up to the bound is a state).  For every string the parser of       *)
(* XGrammar decides accept / reject and, when it accepts, the AST and its    *)
(* value on fixed documents; the Emit invariant writes the case.  A second   *)
(* family checks Parse(Unparse(e)) = e on an AST pool (validates the         *)
(* transcription of the grammar).                                           *)
(***************************************************************************)
EXTENDS XGrammar, XGen

CONSTANTS MaxLen, EmitOn, Alphabet   \* Alphabet: "core" | "ops" | "paths" | "lex" | "split"
VARIABLES s
N_(x) == NameL(x)
Lexemes ==
  IF Alphabet = "core" THEN
    << N_(<<"a">>), N_(<<"d","i","v">>), N_(<<"o","r">>), N_(<<"c","h","i","l","d">>), N_(<<"t","e","x","t">>), [k |-> "num", v |-> NInt(1)],
       [k |-> "lit", s |-> <<"l">>], [k |-> "var", pre |-> "", lo |-> <<"v">>], P_("("), P_(")"), P_("["), P_("]"), P_("/"), P_("//"), P_("|"),
       P_("-"), P_("*"), P_("="), P_(","), P_("::"), P_("@"), P_("."), P_("..") >>
  ELSE IF Alphabet = "ops" THEN
    << N_(<<"a">>), [k |-> "num", v |-> NInt(2)], [k |-> "num", v |-> NInt(10)], N_(<<"a","n","d">>),   \* (10: also spelled 010 and 10.0 by the renderer) N_(<<"o","r">>), N_(<<"m","o","d">>), N_(<<"d","i","v">>),
       P_("+"), P_("-"), P_("*"), P_("="), P_("!="), P_("<"), P_("<="), P_(">"), P_(">="), P_("|"), P_("("), P_(")") >>
  ELSE IF Alphabet = "split" THEN
    \* token sequences that spell the same characters when written without spaces: a//b and a / /b, 1<=1 and 1< =1, a-b and
    \* a - b, .. and . . - the verdict on a string depends on its tokens, never on what was compiled before (explored to length 4)
    << N_(<<"a">>), [k |-> "num", v |-> NInt(1)], P_("/"), P_("//"), P_("<"), P_("="), P_("<="), P_("-"), N_(<<"a","-","b">>), P_("."), P_("..") >>
  ELSE IF Alphabet = "lex" THEN
    << N_(<<"_","x">>), N_(<<"a">>), [k |-> "numdot", v |-> NInt(1)], [k |-> "num", v |-> Rat(1, 2)], [k |-> "num", v |-> Rat(3, 2)], P_("/"), P_("+"), P_("("), P_(")"), P_("@"),
       [k |-> "var", pre |-> "p", lo |-> <<"v">>], [k |-> "lit", s |-> <<"\"", "sp", "w2", "\"">>], [k |-> "lit", s |-> <<"'">>], [k |-> "qname", pre |-> "p", lo |-> <<"c","o","u","n","t">>], N_(<<"w2","a">>) >>
  ELSE
    << N_(<<"a">>), N_(<<"a","-","b">>), N_(<<"a",".","1">>), N_(<<"#","o","b","j">>), N_(<<"n","o","d","e">>), N_(<<"s","e","l","f">>), N_(<<"c","o","m","m","e","n","t">>),
       N_(<<"p","r","o","c","e","s","s","i","n","g","-","i","n","s","t","r","u","c","t","i","o","n">>), N_(<<"c","o","u","n","t">>), N_(<<"p","a","r","e","n","t">>),
       [k |-> "qname", pre |-> "p", lo |-> <<"a">>], [k |-> "nsany", pre |-> "p"], [k |-> "localany", lo |-> <<"a">>], [k |-> "lit", s |-> <<"t">>],
       \* QNames whose prefix and local part are (different) reserved words
       [k |-> "qname", pre |-> "self", lo |-> <<"c","h","i","l","d">>], [k |-> "qname", pre |-> "text", lo |-> <<"n","o","d","e">>], [k |-> "nsany", pre |-> "comment"],
       [k |-> "localany", lo |-> <<"p","a","r","e","n","t">>],
       P_("("), P_(")"), P_("/"), P_("//"), P_("::"), P_("@"), P_("*"), P_("["), P_("]"), [k |-> "num", v |-> NInt(1)] >>
Init == s = <<>>
Next == Len(s) < MaxLen /\ \E i \in 1..Len(Lexemes) : s' = Append(s, Lexemes[i])

\* fixed documents on which accepted strings are evaluated: element names are the name lexemes
El(p, lo) == [k |-> "elem", p |-> p, sp |-> <<>>, lo |-> lo, v |-> <<>>]
ElU(p, lo) == [k |-> "elem", p |-> p, sp |-> U1, lo |-> lo, v |-> <<>>]
Tx(p, v) == [k |-> "text", p |-> p, sp |-> <<>>, lo |-> <<>>, v |-> v]
At(p, lo, v) == [k |-> "attr", p |-> p, sp |-> <<>>, lo |-> lo, v |-> v]
\* <a a="1"><a>2<div>l</div></a><or>3</or><child><text>1</text><a-b/><p:a/></child><!--c--><?t d?><#obj>1</#obj><a.1/><node/><self/><comment/><count/><parent/></a>
GDoc == << [k |-> "root", p |-> 0, sp |-> <<>>, lo |-> <<>>, v |-> <<>>], El(1, <<"a">>), At(2, <<"a">>, <<"1">>),
           El(2, <<"a">>), Tx(4, <<"2">>), El(4, <<"d","i","v">>), Tx(6, <<"l">>), El(2, <<"o","r">>), Tx(8, <<"3">>),
           El(2, <<"c","h","i","l","d">>), El(10, <<"t","e","x","t">>), Tx(11, <<"1">>), El(10, <<"a","-","b">>), ElU(10, <<"a">>),
           [k |-> "comment", p |-> 2, sp |-> <<>>, lo |-> <<>>, v |-> <<"c">>], [k |-> "pi", p |-> 2, sp |-> <<>>, lo |-> <<"t">>, v |-> <<"d">>],
           El(2, <<"#","o","b","j">>), Tx(17, <<"1">>), El(2, <<"a",".","1">>), El(2, <<"n","o","d","e">>), El(2, <<"s","e","l","f">>),
           El(2, <<"c","o","m","m","e","n","t">>), El(2, <<"c","o","u","n","t">>), El(2, <<"p","a","r","e","n","t">>),
           ElU(2, <<"c","h","i","l","d">>), [k |-> "elem", p |-> 2, sp |-> U2, lo |-> <<"n","o","d","e">>, v |-> <<>>], ElU(2, <<"s","e","l","f">>) >>
ASSUME WellFormed(GDoc)
GEnv == [ns |-> [p |-> U1, self |-> U1, text |-> U2, comment |-> U1], vars |-> <<[sp |-> <<>>, lo |-> <<"v">>, val |-> [t |-> "ns", v |-> <<4, 8>>]], [sp |-> U1, lo |-> <<"v">>, val |-> NumV(NInt(7))]>>,
         funcs |-> <<[sp |-> U1, lo |-> <<"c","o","u","n","t">>, kind |-> "nargs"]>>]
Ctxs == <<2, 4>>
Verdict == LET r == Parse(s) IN
  IF ~r.ok THEN [fam |-> "C08.tokens", toks |-> s, cls |-> Classes(s), ok |-> FALSE]
  ELSE [fam |-> "C08.tokens", toks |-> s, cls |-> Classes(s), ok |-> TRUE, e |-> r.e, vals |-> [i \in 1..Len(Ctxs) |-> JV(Eval(GDoc, GEnv, r.e, Ctx(Ctxs[i])))]]
Emit == (EmitOn /\ s # <<>>) => PrintT(ToJson(Verdict))
ASSUME EmitOn => PrintT(ToJson([fam |-> "C08.setup", doc |-> GDoc, env |-> GEnv, ctxs |-> Ctxs]))

\* round trip on an AST pool: the parser inverts the unparser
A1 == Rel(<<Step("child", T_name("", <<"a">>))>>)
Atoms == { A1, Rel(<<Step("child", T_name("", <<"t","e","x","t">>))>>), Abs(<<>>), Abs(<<DoS, Step("child", T_any)>>), IntE(1), Lit(<<"l">>), Var("", <<"v">>),
           Call(<<"c","o","u","n","t">>, <<A1>>), Rel(<<StepP("child", T_any, <<IntE(1)>>), Step("attribute", T_name("", <<"a">>))>>),
           Rel(<<Self>>), Rel(<<Step("parent", T_node)>>), Rel(<<Step("descendant", T_text)>>), Rel(<<Step("child", T_name("p", <<"a">>))>>),
           Rel(<<Step("child", T_nsany("p")), FnStep(Call(<<"n","a","m","e">>, <<>>))>>), Filter(Var("", <<"v">>), <<IntE(1)>>, <<Step("child", T_any)>>),
           Rel(<<Step("child", T_pit(<<"t">>))>>), Rel(<<Step("self", T_name("", <<"c","h","i","l","d">>))>>),
           \* abbreviations equal their expansions also where it matters: a//b[p] is a/descendant-or-self::node()/child::b[p]
           Abs(<<Step("child", T_any), DoS, StepP("child", T_any, <<IntE(1)>>)>>), Rel(<<Self, DoS, StepP("child", T_any, <<Call(<<"l","a","s","t">>, <<>>)>>)>>),
           Abs(<<DoS, StepP("child", T_any, <<IntE(2)>>)>>), Rel(<<Step("parent", T_node), StepP("attribute", T_any, <<IntE(1)>>)>>),
           \* ... and an abbreviated child step is a child:: step whatever axis the steps before it used (//@a/../a, //@*/../*, @*/..//a)
           Abs(<<DoS, Step("attribute", T_name("", <<"a">>)), Step("parent", T_node), Step("child", T_name("", <<"a">>))>>),
           Abs(<<DoS, Step("attribute", T_any), Step("parent", T_node), Step("child", T_any)>>),
           Rel(<<Step("attribute", T_any), Step("parent", T_node), DoS, Step("child", T_name("", <<"a">>))>>),
           Abs(<<DoS, Step("namespace", T_any), Step("parent", T_node), Step("child", T_name("", <<"a">>))>>),
           Rel(<<Step("attribute", T_any), Self, Step("parent", T_node), Step("child", T_any), Step("attribute", T_any)>>),
           \* (E)//P is (E)/descendant-or-self::node()/P also directly after a filter expression: (/a)//a, $v//text, (a|a)[1]//*
           Filter(Abs(<<Step("child", T_name("", <<"a">>))>>), <<>>, <<DoS, Step("child", T_name("", <<"a">>))>>),
           Filter(Var("", <<"v">>), <<>>, <<DoS, Step("child", T_text)>>),
           Filter(Bin("union", A1, A1), <<IntE(1)>>, <<DoS, Step("child", T_any)>>),
           \* .. is parent::node() also from context nodes of different depths whose parents interleave: //text()/.., //*/.., count(//node()/..)
           Abs(<<DoS, Step("child", T_text), Step("parent", T_node)>>), Abs(<<DoS, Step("child", T_any), Step("parent", T_node)>>),
           Call(<<"c","o","u","n","t">>, <<Abs(<<DoS, Step("child", T_node), Step("parent", T_node)>>)>>),
           Abs(<<DoS, Step("child", T_node), Step("parent", T_node), Step("parent", T_node)>>),
           \* every predicate of a step applies, in order: *[1][@a] is not *[1]
           Rel(<<StepP("child", T_any, <<IntE(1), Rel(<<Step("attribute", T_name("", <<"a">>))>>)>>)>>), Abs(<<DoS, StepP("child", T_any, <<IntE(2), IntE(1)>>)>>),
           \* brackets inside a literal are characters of the literal
           Lit(<<"(">>), Lit(<<"]">>), Lit(<<"[", "(", ":", ")">>), Call(<<"c","o","n","t","a","i","n","s">>, <<Rel(<<Self>>), Lit(<<")">>)>>) }
BinOps == {"or", "and", "eq", "ne", "lt", "le", "gt", "ge", "add", "sub", "mul", "div", "mod", "union"}
UnionOK(e) == e.op \in {"path", "filter", "var", "call", "union"}
Depth1 == Atoms \cup {NegE(x) : x \in Atoms} \cup {Bin(o, x, y) : o \in BinOps, x \in {A1, IntE(1), Var("", <<"v">>)}, y \in {A1, IntE(1), Var("", <<"v">>)}}
Shapes == {Bin(o1, Bin(o2, A1, IntE(1)), Var("", <<"v">>)) : o1 \in BinOps, o2 \in BinOps} \cup {Bin(o1, A1, Bin(o2, IntE(1), Var("", <<"v">>))) : o1 \in BinOps, o2 \in BinOps}
          \cup {NegE(Bin(o, A1, IntE(1))) : o \in BinOps} \cup {Bin(o, NegE(A1), NegE(NegE(IntE(1)))) : o \in BinOps}
          \* -(x op y) op z : the negated group is the LEFT operand of a further operator of the same or another level
          \cup {Bin(o1, NegE(Bin(o2, IntE(1), Var("", <<"v">>))), IntE(1)) : o1 \in {"add", "sub", "mul", "div", "mod"}, o2 \in {"add", "sub", "mul", "div", "mod"}}
          \* ... with operands whose values tell the readings apart: -(7 + 2) + 3 is -6, not 12; -(7 mod 2) mod 3 is -1, not 1
          \cup {Bin(o1, NegE(Bin(o2, IntE(7), IntE(2))), IntE(3)) : o1 \in {"add", "sub", "mul", "div", "mod"}, o2 \in {"add", "sub", "mul", "div", "mod"}}
          \cup {Bin(o1, Bin(o2, NegE(Bin(o2, IntE(7), IntE(2))), IntE(3)), NegE(Bin(o1, IntE(5), IntE(4)))) : o1 \in {"add", "sub", "mul", "div", "mod"}, o2 \in {"add", "sub", "mul", "div", "mod"}}
          \cup {Filter(Bin(o, A1, Var("", <<"v">>)), <<IntE(1)>>, <<>>) : o \in BinOps} \cup {Call(<<"c","o","n","c","a","t">>, <<x, Bin("or", x, x)>>) : x \in Atoms}
RoundTrip == \A e \in Depth1 \cup Shapes : LET r == Parse(Unparse(e)) IN r.ok /\ r.e = e
ASSUME RoundTrip
\* the same ASTs as replay cases: every rendering (minimal / redundant parentheses, abbreviated,
\* arbitrary white space) must evaluate as the AST does
AstPool == SetToSeq(Depth1 \cup Shapes)
ASSUME (EmitOn /\ Alphabet = "core") =>
   EmitLine("C08.asts", GDoc, GEnv, [k \in 1..(2 * Len(AstPool)) |-> Case(GDoc, GEnv, Ctxs[((k - 1) % 2) + 1], AstPool[((k - 1) \div 2) + 1])])
\* precedence and associativity facts of the property
PE(toks) == Parse(toks).e
ASSUME PE(<<N_(<<"a">>), N_(<<"o","r">>), N_(<<"a">>), N_(<<"a","n","d">>), N_(<<"a">>)>>).op = "or"
ASSUME PE(<<[k |-> "num", v |-> NInt(1)], P_("-"), [k |-> "num", v |-> NInt(1)], P_("-"), [k |-> "num", v |-> NInt(1)]>>).l.op = "sub"
ASSUME PE(<<P_("-"), N_(<<"a">>), P_("|"), N_(<<"a">>)>>).op = "neg"
ASSUME PE(<<N_(<<"d","i","v">>), N_(<<"d","i","v">>), N_(<<"d","i","v">>)>>).op = "div"
ASSUME PE(<<P_("*"), P_("*"), P_("*")>>).op = "mul"
ASSUME Parse(<<P_("/"), N_(<<"o","r">>)>>).ok /\ ~Parse(<<N_(<<"a">>), N_(<<"a">>)>>).ok /\ ~Parse(<<P_("."), P_("["), [k |-> "num", v |-> NInt(1)], P_("]")>>).ok
=============================================================================
