---------------------------- MODULE MC_Unmarshal ----------------------------
(* C19 model: the chooser picks a target type, then the way it is passed and *)
(* the query result; every complete choice is one Unmarshal call.            *)
(***************************************************************************)
EXTENDS Unmarshal, XGen

CONSTANT EmitOn
VARIABLES ti, fi, ri
vars == <<ti, fi, ri>>

El(p, lo) == [k |-> "elem", p |-> p, sp |-> <<>>, lo |-> lo, v |-> <<>>]
Tx(p, v) == [k |-> "text", p |-> p, sp |-> <<>>, lo |-> <<>>, v |-> v]
At(p, lo, v) == [k |-> "attr", p |-> p, sp |-> <<>>, lo |-> lo, v |-> v]
\* <r id="7"><a>1</a><a>2</a><b q:x="ns" x="t">hello</b><c><d>3</d><d>4</d><p:n>9</p:n></c><e/></r>
UDoc == << [k |-> "root", p |-> 0, sp |-> <<>>, lo |-> <<>>, v |-> <<>>], El(1, <<"r">>), At(2, <<"i","d">>, <<"7">>),      \* 1 2 3
           El(2, <<"a">>), Tx(4, <<"1">>), El(2, <<"a">>), Tx(6, <<"2">>), El(2, <<"b">>),                                  \* 4 5 6 7 8
           [k |-> "attr", p |-> 8, sp |-> U2, lo |-> <<"x">>, v |-> <<"n","s">>],      \* 9: q:x="ns" written before the plain x: @x is the plain one
           At(8, <<"x">>, <<"t">>), Tx(8, <<"h","e","l","l","o">>),                                                         \* 10 11
           El(2, <<"c">>), El(12, <<"d">>), Tx(13, <<"3">>), El(12, <<"d">>), Tx(15, <<"4">>),                              \* 12 13 14 15 16
           [k |-> "elem", p |-> 12, sp |-> U1, lo |-> <<"n">>, v |-> <<>>], Tx(17, <<"9">>),       \* 17 18: <p:n xmlns:p="u1">9</p:n> inside c
           El(2, <<"e">>) >>                                                                                               \* 19
ASSUME WellFormed(UDoc)
C(nm) == Rel(<<Step("child", T_name("", nm))>>)
A_ == C(<<"a">>)
B_ == C(<<"b">>)
Cc == C(<<"c">>)
D_ == C(<<"d">>)
None == C(<<"n","o">>)
Id == Rel(<<Step("attribute", T_name("", <<"i","d">>))>>)
Bx == Rel(<<Step("child", T_name("", <<"b">>)), Step("attribute", T_name("", <<"x">>))>>)
CD == Rel(<<Step("child", T_name("", <<"c">>)), Step("child", T_name("", <<"d">>))>>)
CountA == Call(<<"c","o","u","n","t">>, <<A_>>)
AEq1 == Bin("eq", A_, IntE(1))
Up == Rel(<<Step("parent", T_node), Step("child", T_any)>>)      \* a sub-query that leaves the subtree

\* tags that need the call's bindings (prefix p, variable $v) - also inside nested and pointer-held structs
PN == Rel(<<Step("child", T_name("p", <<"n">>))>>)
VarV == Var("", <<"v">>)
Bound1 == Struct(<<Field(PN, Prim("int")), Field(VarV, Prim("string"))>>)
\* ... and the call's function library: p:f returns its first argument, k7() is the constant 7
UEnv == [ns |-> [p |-> U1], vars |-> <<[sp |-> <<>>, lo |-> <<"v">>, val |-> StrV(<<"w">>)]>>,
         funcs |-> <<[sp |-> U1, lo |-> <<"f">>, kind |-> "arg", i |-> 1], [sp |-> <<>>, lo |-> <<"k","7">>, kind |-> "const", val |-> NumV(NInt(7))]>>]
Bound2 == Struct(<<Field(CallP("p", <<"f">>, <<A_>>), Prim("string")), Field(Call(<<"k","7">>, <<>>), Prim("int")), Field(CallP("p", <<"f">>, <<Id, IntE(2)>>), Prim("int"))>>)
Inner == Struct(<<Field(D_, Slice(Prim("int"))), Field(Up, Slice(Prim("string"))), Untagged(Prim("string"))>>)
Types == << Struct(<<Field(A_, Prim("string")), Field(Id, Prim("int")), Field(AEq1, Prim("bool")), Untagged(Prim("int"))>>),
            Struct(<<Field(A_, Slice(Prim("string"))), Field(A_, Slice(Ptr(Prim("int8")))), Field(CountA, Prim("float64")), Field(None, Prim("string"))>>),
            Struct(<<Field(B_, Ptr(Prim("string"))), Field(Bx, Ptr(Ptr(Prim("string")))), Field(Id, Prim("uint8")), Field(CountA, Prim("int64"))>>),
            Struct(<<Field(Cc, Inner), Field(B_, Prim("bool")), Field(None, Prim("bool"))>>),
            Struct(<<Field(Cc, Ptr(Inner)), Field(CD, Slice(Struct(<<Field(Rel(<<Self>>), Prim("uint16"))>>)))>>),
            Struct(<<Field(A_, Inner)>>),                                   \* struct field over a 2-node result: wrong shape
            Struct(<<Field(None, Inner)>>),                                 \* ... over an empty result
            Struct(<<Field(CountA, Slice(Prim("int")))>>),                  \* slice field over a number
            Struct(<<Hidden(B_, Prim("string"))>>),                         \* unexported tagged field
            Struct(<<Hidden(B_, Struct(<<Field(Rel(<<Self>>), Prim("string"))>>))>>),           \* unexported tagged field holding a struct by value
            Slice(Struct(<<Hidden(Rel(<<Self>>), Struct(<<Field(Rel(<<Self>>), Prim("string"))>>))>>)),
            Struct(<<Field(A_, [k |-> "map"])>>), Struct(<<Field(A_, [k |-> "array"])>>), Struct(<<Field(A_, [k |-> "chan"])>>),
            Struct(<<Field(A_, [k |-> "iface"])>>), Struct(<<Field(A_, [k |-> "func"])>>),
            Struct(<<Field(A_, Slice(Slice(Prim("int"))))>>), Struct(<<Field(None, Slice(Slice(Prim("int"))))>>),
            Struct(<<Field(Var("", <<"u","n","b">>), Prim("string"))>>),  \* the tag query fails (unbound variable)
            Struct(<<Untagged(Prim("string")), Untagged(Prim("int"))>>),
            Struct(<<Field(Cc, Bound1), Field(VarV, Prim("string"))>>), Struct(<<Field(Cc, Ptr(Bound1))>>), Struct(<<Field(Cc, Ptr(Ptr(Bound1)))>>),
            Struct(<<Field(Cc, Slice(Bound1))>>), Struct(<<Field(Cc, Slice(Ptr(Bound1)))>>), Slice(Struct(<<Field(Cc, Ptr(Bound1))>>)),
            \* scalar fields over a several-node result of a REVERSE axis: the value is that of the first node in document order (a = "1", d = "3")
            Struct(<<Field(Rel(<<Step("child", T_name("", <<"b">>)), Step("preceding-sibling", T_any)>>), Prim("string")),
                     Field(Rel(<<Step("child", T_name("", <<"b">>)), Step("preceding-sibling", T_any)>>), Prim("int")),
                     Field(Rel(<<Step("child", T_name("", <<"e">>)), Step("preceding", T_name("", <<"d">>))>>), Ptr(Prim("float64"))),
                     \* a slice over it: "result order" may be ascending or descending (C03), the list carries rev
                     Field(Rel(<<Step("child", T_name("", <<"e">>)), Step("preceding", T_name("", <<"d">>))>>), Slice(Prim("int")))>>),
            \* values beyond 32 bits: 2^63 fits uint64 only, 2^40 fits both 64-bit kinds
            Struct(<<Field(NumE(Pow2(1, 63)), Prim("uint64")), Field(NumE(Pow2(1, 40)), Prim("int64")), Field(NumE(Pow2(1, 40)), Prim("uint64")),
                     Field(NegE(NumE(Pow2(1, 40))), Prim("int64")), Field(NumE(Pow2(1, 63)), Ptr(Ptr(Prim("uint64")))),
                     Field(NumE(NamedNum("three62")), Prim("uint64")), Field(NumE(NamedNum("three62")), Ptr(Prim("uint64")))>>),
            \* a bare @x tag, evaluated at an element that also has a namespaced attribute of that local name (written first)
            Struct(<<Field(B_, Struct(<<Field(Rel(<<Step("attribute", T_name("", <<"x">>))>>), Prim("string")),
                                        Field(Rel(<<Step("attribute", T_name("", <<"x">>))>>), Slice(Prim("string"))),
                                        Field(Rel(<<Step("attribute", T_name("", <<"n","o">>))>>), Prim("bool")),
                                        Field(Rel(<<Step("attribute", T_name("p", <<"x">>))>>), Prim("bool"))>>))>>),
            Slice(Struct(<<Field(Call(<<"p","o","s","i","t","i","o","n">>, <<>>), Prim("int")), Field(Call(<<"l","a","s","t">>, <<>>), Prim("int")), Field(Rel(<<Self>>), Prim("string"))>>)),
            Struct(<<Field(A_, Slice(Struct(<<Field(Call(<<"l","a","s","t">>, <<>>), Prim("int"))>>)))>>),
            \* embedded members: tagged (its inner tags are evaluated at the node ITS tag selects: child::d is empty from r, 3 4 from c),
            \* untagged by value (left alone, inner tags and all), an untagged nil *T (left nil), and the same inside slice elements
            Struct(<<Embedded(Cc, Struct(<<Field(D_, Slice(Prim("int"))), Field(Rel(<<Step("child", T_any)>>), Prim("string")), Untagged(Prim("string"))>>)), Field(Id, Prim("int"))>>),
            Struct(<<Field(Id, Prim("int")), EmbeddedUntagged(Struct(<<Field(A_, Prim("string")), Field(Id, Prim("int"))>>))>>),
            Struct(<<EmbeddedUntagged(Ptr(Struct(<<Field(A_, Prim("string"))>>))), Field(A_, Prim("string"))>>),
            Struct(<<Embedded(Cc, Ptr(Struct(<<Field(D_, Prim("int")), Field(CountA, Prim("int"))>>))), Field(CountA, Prim("int"))>>),
            Slice(Struct(<<Embedded(Rel(<<Step("child", T_any)>>), Struct(<<Field(Rel(<<Self>>), Prim("string"))>>)), Field(Rel(<<Self>>), Prim("string"))>>)),
            \* a recursive declared type: the whole element tree under r as nested Dir values (and as a slice of them)
            DirT, Slice(DirT), Ptr(DirT),
            \* a bare name tag is child::name in NO namespace: c has a child p:n and no child n
            Struct(<<Field(Cc, Struct(<<Field(C(<<"n">>), Prim("string")), Field(D_, Slice(Prim("int"))), Field(C(<<"n">>), Slice(Prim("string"))), Field(PN, Prim("int"))>>))>>),
            \* two declared types of the same name with different tags, used one after the other in one process
            Declared("Item", <<Field(A_, Prim("string")), Untagged(Prim("string"))>>), Declared("Item", <<Field(B_, Prim("string")), Untagged(Prim("string"))>>),
            Slice(Declared("Item", <<Field(B_, Prim("string")), Untagged(Prim("string"))>>)), Slice(Declared("Item", <<Field(A_, Prim("string")), Untagged(Prim("string"))>>)),
            \* the target is a chain of pointers ending in a struct with untagged fields (handed over nil, and fully allocated)
            Ptr(Ptr(Struct(<<Field(Id, Prim("int32")), Untagged(Prim("string")), Untagged(Prim("int"))>>))), Ptr(Struct(<<Field(A_, Prim("string")), Untagged(Prim("string"))>>)),
            Ptr(Ptr(Ptr(Struct(<<Untagged(Prim("int")), Field(CountA, Prim("int"))>>)))),
            Bound2, Struct(<<Field(Cc, Bound2)>>), Slice(Struct(<<Field(Rel(<<Self>>), Ptr(Bound2))>>)),
            Ptr(Struct(<<Field(A_, Prim("string"))>>)), Ptr(Ptr(Struct(<<Field(Id, Prim("int32"))>>))),
            Slice(Prim("string")), Slice(Prim("int")), Slice(Prim("float32")), Slice(Prim("bool")), Slice(Ptr(Prim("string"))),
            Slice(Struct(<<Field(Rel(<<Self>>), Prim("string")), Field(Rel(<<Step("following-sibling", T_any)>>), Slice(Prim("string")))>>)),
            Slice(Ptr(Struct(<<Field(Rel(<<Self>>), Prim("int"))>>))), Slice(Slice(Prim("int"))), Slice([k |-> "map"]),
            Prim("int"), Prim("string"), [k |-> "map"], [k |-> "array"], [k |-> "chan"], [k |-> "func"] >>
Forms == <<"ptr", "nonptr", "nilptr", "nil">>
Results == << Abs(<<Step("child", T_name("", <<"r">>))>>), Abs(<<Step("child", T_name("", <<"r">>)), Step("child", T_name("", <<"a">>))>>),
              Abs(<<Step("child", T_name("", <<"r">>)), Step("child", T_name("", <<"n","o">>))>>),
              Abs(<<Step("child", T_name("", <<"r">>)), Step("child", T_any)>>),
              Call(<<"c","o","u","n","t">>, <<Abs(<<DoS>>)>>), Lit(<<"s">>), Call(<<"t","r","u","e">>, <<>>) >>

Init == ti \in 1..Len(Types) /\ fi = 0 /\ ri = 0
Next == fi = 0 /\ fi' \in 1..Len(Forms) /\ ri' \in 1..Len(Results) /\ ti' = ti
Ready == fi # 0
Res == Eval(UDoc, UEnv, Results[ri], Ctx(1))
Out == UnmarshalCall(UDoc, UEnv, Forms[fi], Types[ti], Res, MayRev(Results[ri]))

\* laws: only a non-nil pointer to a struct or slice can succeed; a struct needs exactly one node
\* the types added for large values and bare attribute tags are filled, not rejected (a wrongly shaped field would make the whole
\* call an expected error and the case vacuous)
ASSUME \A i \in 1..Len(Types) : (Types[i].k = "struct" /\ \E j \in 1..Len(Types[i].f) : Types[i].f[j].tag.op = "num" /\ Types[i].f[j].tag.v.c \in {"pow2", "named"})
          => ~IsUErr(UnmarshalCall(UDoc, UEnv, "ptr", Types[i], Eval(UDoc, UEnv, Results[1], Ctx(1)), FALSE))
Laws == Ready =>
  /\ (Forms[fi] # "ptr" => IsUErr(Out))
  /\ (StripPtr(Types[ti]).k \notin {"struct", "slice"} => IsUErr(Out))
  /\ (StripPtr(Types[ti]).k = "struct" /\ (Res.t # "ns" \/ Cardinality(Res.v) # 1) => IsUErr(Out))
  /\ (~IsUErr(Out) /\ StripPtr(Types[ti]).k = "slice" => Len(Out.v) = Cardinality(Res.v))
Emit == (EmitOn /\ Ready) => PrintT(ToJson([fam |-> "C19.unmarshal", doc |-> UDoc, env |-> UEnv, type |-> Types[ti], form |-> Forms[fi], result |-> Results[ri], out |-> Out]))

\* One call over nodes of TWO documents: the node-set handed to Unmarshal holds the nodes the query selects in UDoc followed by
\* the nodes it selects in a twin document (same shape, every text and attribute value followed by "7").  Every element of the
\* slice is filled from its own node, and a tag is evaluated in the document of that node - absolute paths included.
UTwin == [n \in 1..Len(UDoc) |-> IF UDoc[n].k \in {"text", "attr"} THEN [UDoc[n] EXCEPT !.v = @ \o <<"7">>] ELSE UDoc[n]]
ASSUME WellFormed(UTwin)
AbsId == Abs(<<Step("child", T_name("", <<"r">>)), Step("attribute", T_name("", <<"i","d">>))>>)            \* /r/@id
TwoDocTypes == << Slice(Struct(<<Field(Rel(<<Self>>), Prim("string")), Field(AbsId, Prim("string")), Field(Abs(<<DoS, Step("child", T_name("", <<"d">>))>>), Slice(Prim("string")))>>)),
                  Slice(Ptr(Struct(<<Field(Call(<<"c","o","n","c","a","t">>, <<AbsId, Lit(<<"|">>), Rel(<<Self>>)>>), Prim("string"))>>))),
                  Slice(Prim("string")) >>
TwoDocResults == << Results[2], Results[4], Abs(<<DoS, Step("child", T_name("", <<"d">>))>>) >>
TwoDocOut(T, e) ==
  LET a == UnmarshalCall(UDoc, UEnv, "ptr", T, Eval(UDoc, UEnv, e, Ctx(1)), FALSE)
      b == UnmarshalCall(UTwin, UEnv, "ptr", T, Eval(UTwin, UEnv, e, Ctx(1)), FALSE)
  IN IF IsUErr(a) THEN a ELSE IF IsUErr(b) THEN b ELSE [k |-> "list", v |-> a.v \o b.v, rev |-> FALSE]
ASSUME \A i \in 1..Len(TwoDocTypes), j \in 1..Len(TwoDocResults) : ~IsUErr(TwoDocOut(TwoDocTypes[i], TwoDocResults[j]))
ASSUME EmitOn => \A i \in 1..Len(TwoDocTypes), j \in 1..Len(TwoDocResults) :
   PrintT(ToJson([fam |-> "C19.unmarshal", doc |-> UDoc, twin |-> UTwin, env |-> UEnv, type |-> TwoDocTypes[i], form |-> "ptr", result |-> TwoDocResults[j], out |-> TwoDocOut(TwoDocTypes[i], TwoDocResults[j])]))
=============================================================================
