INIT Init
NEXT Next
