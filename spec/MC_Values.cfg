CONSTANTS
  OpenFx = {}
  Family = "C05"
  EmitOn = TRUE
  StrLen = 3
INIT Init
NEXT Next
INVARIANTS C05Laws C06Laws C04nLaws C04sLaws C04vLaws C07Laws Emit
