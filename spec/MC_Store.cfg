CONSTANTS
  ElemNames <- C_ElemNames
  AttrNames <- C_AttrNames
  AttrValues <- C_AttrValues
  NsDecls <- C_NsDecls
  Texts <- C_Texts
  Comments <- C_Comments
  PIs <- C_PIs
  MaxNodes = 12
  MaxDepth = 4
  MaxEvents = 6
  SurplusEnd = TRUE
  EmitOn = TRUE
INIT Init
NEXT Next
INVARIANTS TypeOK TreeWellFormed NsPrefixUnique NsInherited NoEmptyDefaultNs OpenIsChain FoldAgrees Emit
PROPERTIES NodesOnlyGrow
