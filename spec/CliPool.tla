------------------------------- MODULE CliPool ------------------------------
(* The worker pool of the command-line tool (xsel/xsel.go): the walker       *)
(* (main goroutine) takes a semaphore token, increments the WaitGroup and    *)
(* starts a worker per file; a worker parses, queries, prints its whole      *)
(* output block with ONE write, returns the token and decrements the         *)
(* WaitGroup; main waits for the WaitGroup and exits.  One action per hook   *)
(* point of the verif build (acquire, add, spawn, start, print, release,     *)
(* done, wait, exit).  With Conc = FALSE (-c 1) the walker runs the worker   *)
(* inline.                                                                  *)
(***************************************************************************)
EXTENDS Integers, Sequences, FiniteSets, TLC

\* (the @type comments are for Apalache - CliPoolInd.tla; TLC ignores them)
CONSTANTS
          \* @type: Int;
          NF,      \* number of files, walked in the order 1..NF
          \* @type: Int;
          N,       \* -c N: semaphore capacity
          \* @type: Bool;
          Conc,    \* BOOLEAN: workers are goroutines (N > 1) or inline calls
          \* @type: Set(Int);
          Prints   \* set of files whose query result is non-empty (the others print nothing)

VARIABLES
          \* @type: Int;
          next,   \* the file the walker handles next (NF + 1: walk finished)
          \* @type: Str;
          wpc,    \* walker: "acquire" | "add" | "spawn" | "inline" (waiting for an inline worker)
          \* @type: Str;
          main,   \* "walk" | "wait" (about to call WaitGroup.Wait) | "waiting" | "exit"
          \* @type: Int;
          sem,    \* tokens taken
          \* @type: Int;
          wg,     \* WaitGroup counter
          \* @type: Int -> Str;
          st,     \* per file: "new" | "spawned" | "started" | "printed" | "released" | "done"
          \* @type: Seq(Int);
          out     \* stdout: the sequence of printed blocks (file numbers)

vars == <<next, wpc, main, sem, wg, st, out>>
Files == 1..NF

Init == /\ next = 1 /\ wpc = "acquire" /\ main = IF NF = 0 THEN "wait" ELSE "walk"
        /\ sem = 0 /\ wg = 0 /\ st = [f \in Files |-> "new"] /\ out = <<>>

Acquire(f) == /\ main = "walk" /\ next = f /\ wpc = "acquire"
              /\ sem < N                               \* blocks while all tokens are taken
              /\ sem' = sem + 1 /\ wpc' = "add"
              /\ UNCHANGED <<next, main, wg, st, out>>
Add(f) == /\ main = "walk" /\ next = f /\ wpc = "add"
          /\ wg' = wg + 1 /\ wpc' = "spawn"
          /\ UNCHANGED <<next, main, sem, st, out>>
Spawn(f) == /\ main = "walk" /\ next = f /\ wpc = "spawn" /\ st[f] = "new"
            /\ st' = [st EXCEPT ![f] = "spawned"]
            /\ IF Conc THEN /\ next' = f + 1 /\ wpc' = "acquire"
                            /\ main' = IF f = NF THEN "wait" ELSE "walk"
               ELSE /\ wpc' = "inline" /\ UNCHANGED <<next, main>>
            /\ UNCHANGED <<sem, wg, out>>
Start(f) == /\ st[f] = "spawned" /\ st' = [st EXCEPT ![f] = "started"]
            /\ UNCHANGED <<next, wpc, main, sem, wg, out>>
PrintBlock(f) == /\ st[f] = "started" /\ f \in Prints
            /\ st' = [st EXCEPT ![f] = "printed"] /\ out' = Append(out, f)
            /\ UNCHANGED <<next, wpc, main, sem, wg>>
Release(f) == /\ (st[f] = "printed" \/ (st[f] = "started" /\ f \notin Prints))
              /\ st' = [st EXCEPT ![f] = "released"] /\ sem' = sem - 1
              /\ UNCHANGED <<next, wpc, main, wg, out>>
Done(f) == /\ st[f] = "released"
           /\ st' = [st EXCEPT ![f] = "done"] /\ wg' = wg - 1
           /\ IF ~Conc THEN /\ next' = f + 1 /\ wpc' = "acquire" /\ main' = IF f = NF THEN "wait" ELSE "walk"   \* the inline call returns
              ELSE UNCHANGED <<next, wpc, main>>
           /\ UNCHANGED <<sem, out>>
\* main calls WaitGroup.Wait ("wait" hook point) ...
WaitCall == /\ main = "wait" /\ main' = "waiting"
            /\ UNCHANGED <<next, wpc, sem, wg, st, out>>
\* ... which returns when the counter is zero ("exit" hook point)
Exit == /\ main = "waiting" /\ wg = 0 /\ main' = "exit"
        /\ UNCHANGED <<next, wpc, sem, wg, st, out>>
Finished == main = "exit" /\ UNCHANGED vars      \* terminal stuttering (so that deadlock checking stays on)

Next == \/ \E f \in Files : Acquire(f) \/ Add(f) \/ Spawn(f) \/ Start(f) \/ PrintBlock(f) \/ Release(f) \/ Done(f)
        \/ WaitCall \/ Exit \/ Finished
Spec == Init /\ [][Next]_vars /\ WF_vars(Next)

TypeOK == sem \in 0..N /\ wg \in 0..NF /\ next \in 1..(NF + 1)
AtMostNRunning == Cardinality({f \in Files : st[f] \in {"spawned", "started", "printed"}}) <= N
WaitGroupCounts == wg = Cardinality({f \in Files : st[f] \in {"spawned", "started", "printed", "released"}}) + (IF wpc = "spawn" THEN 1 ELSE 0)
TokensCount == sem = Cardinality({f \in Files : st[f] \in {"spawned", "started", "printed"}}) + (IF wpc \in {"add", "spawn"} THEN 1 ELSE 0)
\* the process exits only after every file has been handled and every non-empty block printed
ExitOnlyAfterAllPrinted == main = "exit" => (\A f \in Files : st[f] = "done") /\ {out[i] : i \in DOMAIN out} = Prints
\* stdout is a sequence of whole blocks, one per file with a non-empty result
BlocksIntact == Len(out) = Cardinality({out[i] : i \in DOMAIN out}) /\ {out[i] : i \in DOMAIN out} \subseteq Prints
Terminates == <>(main = "exit")
=============================================================================
