------------------------------- MODULE MC_Xml -------------------------------
(* C09 model: an item-sequence builder (well-formed, namespace-conformant    *)
(* documents over small pools); TLC checks on every reachable document that  *)
(* the Store machine fed with XmlEvents builds exactly XmlTree (so the       *)
(* adapter contract "declared namespaces only" + the store's inheritance     *)
(* realise the in-scope semantics), and emits the complete documents.        *)
(***************************************************************************)
EXTENDS XmlAdapter, Json, TLC, FiniteSets

CONSTANTS MaxItems, EmitOn, FullProduct, ItemPool   \* ItemPool: "all" | "starts" (only start and end tags: deeper nesting)
                                                    \*         | "runs" (one plain start tag, character data in pieces, a comment: several merged text runs per document)
U1 == <<"u", "1">>
U2 == <<"u", "2">>
P == <<"p">>
Q == <<"q">>
ElemQ == {[pre |-> <<>>, lo |-> <<"a">>], [pre |-> P, lo |-> <<"a">>], [pre |-> Q, lo |-> <<"b">>]}
DeclSets == {<<>>, <<B(P, U1)>>, <<B(<<>>, U1)>>, <<B(<<>>, <<>>)>>, <<B(P, U2)>>, <<B(Q, U1), B(<<>>, U2)>>, <<B(XmlPre, XmlUri), B(P, U1)>>}
AttrSets == {<<[pre |-> P, lo |-> <<"x">>, v |-> <<"1">>], [pre |-> <<>>, lo |-> <<"x">>, v |-> <<"2">>]>>, <<>>, <<[pre |-> <<>>, lo |-> <<"x">>, v |-> <<"1">>]>>, <<[pre |-> <<>>, lo |-> <<"w">>, v |-> <<"a", "nl", "tab", "b", "cr">>]>>,   \* (white space written as &#10; &#9; &#13;)
             <<[pre |-> P, lo |-> <<"x">>, v |-> <<"a", "sp", "<">>], [pre |-> <<>>, lo |-> <<"y">>, v |-> <<>>]>>}
CharItems == {[k |-> "chars", v |-> <<"t">>, how |-> "plain"], [k |-> "chars", v |-> <<"<", "c", "&">>, how |-> "cdata"],
              [k |-> "chars", v |-> <<"&", "w2">>, how |-> "ref"], [k |-> "chars", v |-> <<"sp", "nl">>, how |-> "plain"],
              [k |-> "chars", v |-> <<"a", "b", "c">>, how |-> "split3"],
              [k |-> "chars", v |-> <<"bom", "t">>, how |-> "plain"], [k |-> "chars", v |-> <<"bom">>, how |-> "ref"]}   \* U+FEFF at the start of a text node is a character of it    \* written as text, CDATA section, text: still ONE text node
Others == {[k |-> "comment", v |-> <<"c">>], [k |-> "pi", lo |-> <<"t">>, v |-> <<"d">>], [k |-> "pi", lo |-> <<"t">>, v |-> <<"d", "sp", "e", "sp">>],
           [k |-> "pi", lo |-> <<"x","m","l","-","s">>, v |-> <<"h">>]}   \* (the second PI's data ends in white space: part of the data)

VARIABLES items, scopes, roots   \* items so far; stack of in-scope lists; number of top-level elements started
vars == <<items, scopes, roots>>
Init == items = <<>> /\ scopes = <<<<>>>> /\ roots = 0
Depth == Len(scopes) - 1
\* MaxItems bounds the items other than closing tags; closing tags are always allowed
NonEnd == Cardinality({i \in 1..Len(items) : items[i].k # "end"})
Room == NonEnd < MaxItems
Start(q, ds, as) ==
  /\ Room /\ (Depth > 0 \/ roots = 0)
  /\ LET sc == ScopeAfter(scopes[Len(scopes)], ds) IN
     /\ (q.pre = <<>> \/ IsBound(sc, q.pre)) /\ \A j \in 1..Len(as) : as[j].pre = <<>> \/ IsBound(sc, as[j].pre)
     /\ scopes' = Append(scopes, sc)
  /\ items' = Append(items, [k |-> "start", pre |-> q.pre, lo |-> q.lo, decls |-> ds, attrs |-> as])
  /\ roots' = IF Depth = 0 THEN roots + 1 ELSE roots
End == /\ Depth > 0
       /\ items' = Append(items, [k |-> "end"]) /\ scopes' = SubSeq(scopes, 1, Len(scopes) - 1) /\ UNCHANGED roots
Chars(c) == /\ Room /\ Depth > 0                        \* character data only inside the document element
            /\ items' = Append(items, c) /\ UNCHANGED <<scopes, roots>>
Other(o) == /\ Room /\ items' = Append(items, o) /\ UNCHANGED <<scopes, roots>>
\* start tags: a curated set instead of the full product (which is explored by the thorough tier)
A_ == [pre |-> <<>>, lo |-> <<"a">>]
PA == [pre |-> P, lo |-> <<"a">>]
QB == [pre |-> Q, lo |-> <<"b">>]
X1 == <<[pre |-> <<>>, lo |-> <<"x">>, v |-> <<"1">>]>>
PX == <<[pre |-> P, lo |-> <<"x">>, v |-> <<"a", "sp", "<">>], [pre |-> <<>>, lo |-> <<"y">>, v |-> <<>>]>>
RunChars == {c \in CharItems : c.how \in {"cdata", "split3"} \/ c.v \in {<<"t">>, <<"bom", "t">>}}
StartTags == IF ItemPool = "runs" THEN { <<A_, <<>>, <<>>>> } ELSE
             IF ItemPool = "starts" THEN   \* nesting chains: only what matters for namespace scoping
               { <<A_, <<>>, <<>>>>, <<A_, <<B(<<>>, U1)>>, <<>>>>, <<A_, <<B(<<>>, <<>>)>>, <<>>>>, <<PA, <<B(P, U1)>>, <<>>>>,
                 <<A_, <<B(XmlPre, XmlUri)>>, <<>>>>,    \* the xml prefix declared explicitly (legal, and a no-op)
                 <<A_, <<B(<<>>, U1), B(P, U1)>>, <<>>>> }   \* the default namespace declared BEFORE a prefix (xmlns="" below it removes a middle entry)
             ELSE IF FullProduct THEN {<<q, ds, as>> : q \in ElemQ, ds \in DeclSets, as \in AttrSets}
             ELSE { <<A_, <<>>, <<>>>>, <<A_, <<B(<<>>, U1)>>, X1>>, <<PA, <<B(P, U1)>>, PX>>, <<A_, <<B(<<>>, <<>>)>>, <<>>>>,
                    <<PA, <<B(P, U2)>>, <<>>>>, <<QB, <<B(Q, U1), B(<<>>, U2)>>, X1>>, <<A_, <<B(P, U1)>>, <<>>>>, <<PA, <<>>, X1>>,
                    <<A_, <<B(XmlPre, XmlUri), B(P, U1)>>, <<[pre |-> XmlPre, lo |-> <<"l","a","n","g">>, v |-> <<"e","n">>]>>>>,
                    <<A_, <<>>, <<[pre |-> <<>>, lo |-> <<"w">>, v |-> <<"a", "nl", "tab", "b", "cr">>]>>>>,
                    \* two attributes with the same local name in different namespaces are two attributes: p:x and x, xml:lang and lang
                    <<PA, <<B(P, U1)>>, <<[pre |-> P, lo |-> <<"x">>, v |-> <<"1">>], [pre |-> <<>>, lo |-> <<"x">>, v |-> <<"2">>]>>>>,
                    <<A_, <<>>, <<[pre |-> <<>>, lo |-> <<"l","a","n","g">>, v |-> <<"d","e">>], [pre |-> XmlPre, lo |-> <<"l","a","n","g">>, v |-> <<"e","n">>]>>>> }
Next == \/ \E t \in StartTags : Start(t[1], t[2], t[3])
        \/ End \/ (ItemPool = "all" /\ (\E c \in CharItems : Chars(c) \/ \E o \in Others : Other(o)))
        \/ (ItemPool = "runs" /\ (\E c \in RunChars : Chars(c) \/ Other([k |-> "comment", v |-> <<"c">>])))

CompleteDoc == Depth = 0 /\ roots = 1
\* the Store machine fed with the adapter's events builds the data model
Refines == LET evs == XmlEvents(items) t == TreeOf(evs) w == XmlTree(items) IN
   /\ Conforms(evs)
   /\ NonNs(t) = NonNs(w)
   /\ \A e \in 1..Len(w) : w[e].k = "elem" => (t[e].k = "elem" /\ NsSet(t, e) = NsSet(w, e))
   /\ Len(t) = Len(w)
\* no two adjacent text nodes; no namespace node for an undeclared default namespace
DataModelOK == LET w == XmlTree(items) IN
   /\ \A n \in 2..Len(w) : ~(w[n].k = "text" /\ w[n - 1].k = "text" /\ w[n].p = w[n - 1].p)
   /\ \A n \in 1..Len(w) : w[n].k = "ns" => ~(w[n].lo = <<>> /\ w[n].v = <<>>)
   /\ \A n \in 1..Len(w) : w[n].k = "elem" => \E m \in NsOf(w, n) : w[m].lo = XmlPre /\ w[m].v = XmlUri
Emit == (EmitOn /\ CompleteDoc) => PrintT(ToJson([fam |-> "C09.xml", items |-> items, evs |-> XmlEvents(items), doc |-> XmlTree(items)]))
=============================================================================
