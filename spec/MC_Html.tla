------------------------------- MODULE MC_Html ------------------------------
(* C17 model: DOM shapes are built by the Store machine (elements, text,     *)
(* comments, attributes) under a document node with a doctype; the           *)
(* HtmlAdapter machine is then stepped one Pull at a time over the finished  *)
(* DOM; TLC checks that what it emits is, up to surplus End events at the    *)
(* root, always a prefix of the mapping and equal to it at EOF.              *)
(***************************************************************************)
EXTENDS Store, HtmlAdapter, Json

CONSTANT EmitOn
H_ElemNames == {[sp |-> <<>>, lo |-> <<"p">>], [sp |-> <<>>, lo |-> <<"b">>]}
H_AttrNames == {[sp |-> <<>>, lo |-> <<"c">>], [sp |-> <<>>, lo |-> <<"a", ":", "b", ":", "c">>]}   \* a name with two colons: the prefix ends at the FIRST one
H_AttrValues == {<<"1">>}
H_Texts == {<<"t">>}
H_Comments == {<<"c">>}
Empty == {}

\* the DOM of a finished Store document: document node, doctype, then the tree nodes (ids shifted by one)
DomOf(d) ==
  LET tree == Asc({n \in 2..Len(d) : IsTree(d, n)})
      Idx(n) == IF n = 1 THEN 1 ELSE 2 + CHOOSE i \in 1..Len(tree) : tree[i] = n
      AtOf(n) == LET as == Asc(AttrsOf(d, n)) IN [i \in 1..Len(as) |-> [ns |-> <<>>, key |-> d[as[i]].lo, v |-> d[as[i]].v]]
  IN <<[k |-> "doc", p |-> 0, lo |-> <<>>, at |-> <<>>], [k |-> "doctype", p |-> 1, lo |-> <<"h", "t", "m", "l">>, at |-> <<>>]>>
     \o [i \in 1..Len(tree) |-> [k |-> d[tree[i]].k, p |-> Idx(d[tree[i]].p),
                                 lo |-> IF d[tree[i]].k = "elem" THEN d[tree[i]].lo ELSE d[tree[i]].v, at |-> IF d[tree[i]].k = "elem" THEN AtOf(tree[i]) ELSE <<>>]]

VARIABLES h, emitted, fin   \* adapter state, events pulled so far, finished (eof or error)
allvars == <<doc, open, phase, evs, h, emitted, fin>>
MInit == Init /\ h = H0 /\ emitted = <<>> /\ fin = "no"
\* phase 1: build the DOM (Store machine); phase 2: pull from it
Build == fin = "no" /\ emitted = <<>> /\ h = H0 /\ Next /\ UNCHANGED <<h, emitted, fin>>
PullStep == /\ Complete /\ fin = "no" /\ Children(doc, 1) # {}
            /\ LET r == PullHtml(DomOf(doc), h, 4) IN
               /\ h' = r.h
               /\ IF r.ev.k \in {"eof", "err"} THEN fin' = r.ev.k /\ emitted' = emitted ELSE fin' = "no" /\ emitted' = Append(emitted, r.ev)
            /\ UNCHANGED <<doc, open, phase, evs>>
MNext == Build \/ PullStep
Want == HtmlEvents(DomOf(doc))
PrefixOK == LET got == StripSurplusEnd(emitted, 1, 0) IN Len(got) <= Len(Want) /\ got = SubSeq(Want, 1, Len(got))
CompleteAtEOF == (fin = "eof" => SameTree(emitted, Want)) /\ fin # "err"
ContractOK == Conforms(emitted)
\* the mapping equals the Store document itself (names are local, no namespaces in this pool)
MappingIsIdentity == Complete => TreeOf(Want) = [n \in DOMAIN doc |-> IF doc[n].k \in {"elem", "attr"} THEN [doc[n] EXCEPT !.lo = LocalPart(@)] ELSE doc[n]]
Emit == (EmitOn /\ fin = "eof") => PrintT(ToJson([fam |-> "C17.dom", body |-> doc]))
MView == <<doc, open, phase, h, emitted, fin>>
=============================================================================
