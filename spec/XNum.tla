------------------------------- MODULE XNum -------------------------------
(* XPath 1.0 numbers (IEEE-754 doubles) on an exact abstract domain.        *)
(*                                                                          *)
(* A numeral is one of                                                      *)
(*   [c |-> "nan"]                                                          *)
(*   [c |-> "inf",  s |-> 1 | -1]                                           *)
(*   [c |-> "zero", s |-> 1 | -1]                                           *)
(*   [c |-> "fin",  s |-> 1 | -1, n |-> Nat \ {0}, d |-> Nat \ {0}]         *)
(*        the rational s*n/d in lowest terms; when d is a power of two the  *)
(*        value is a double and every operation below is exact in IEEE-754; *)
(*        otherwise it denotes the double nearest to n/d (a correctly       *)
(*        rounded quotient) and may only be compared, rounded or printed    *)
(*        as a result -- arithmetic on it yields "unk".                     *)
(*   [c |-> "pow2", s |-> 1 | -1, e |-> Int]   the double s*2^e for exponents  *)
(*        far outside the "fin" range: 31 <= e <= 1023 (beyond 2^31, 2^53,   *)
(*        2^63, 2^64 ...) or -1074 <= e <= -21 (down to the smallest         *)
(*        subnormal).  Only operations whose IEEE result is certain are      *)
(*        defined on it; everything else yields "unk".                      *)
(*   [c |-> "named", id |-> string]   a boundary double outside both ranges,  *)
(*        known by a table of the few facts needed about it (its floor,      *)
(*        ceiling and rounding); the harness holds its bit pattern.          *)
(*   [c |-> "unk"]   the specification does not determine the double        *)
(*                   (judges skip such cases; never produced on the exact   *)
(*                   sub-domain the generators stay in).                    *)
(***************************************************************************)
EXTENDS Integers, Sequences

Nan == [c |-> "nan"]
Unk == [c |-> "unk"]
Inf(s) == [c |-> "inf", s |-> s]
Zero(s) == [c |-> "zero", s |-> s]

RECURSIVE GCD(_, _)
GCD(a, b) == IF b = 0 THEN a ELSE GCD(b, a % b)

Fin(s, n, d) == LET g == GCD(n, d) IN [c |-> "fin", s |-> s, n |-> n \div g, d |-> d \div g]
\* signed numerator sn (any integer) over positive d; zs = sign to use when the value is zero
Mk(sn, d, zs) == IF sn = 0 THEN Zero(zs) ELSE IF sn > 0 THEN Fin(1, sn, d) ELSE Fin(-1, -sn, d)
NInt(k) == Mk(k, 1, 1)
Rat(sn, d) == Mk(sn, d, 1)

IsNan(a) == a.c = "nan"
IsUnk(a) == a.c = "unk"
IsInf(a) == a.c = "inf"
IsZero(a) == a.c = "zero"
IsFin(a) == a.c = "fin"
IsNamed(a) == a.c = "named"
NamedNum(id) == [c |-> "named", id |-> id]
\* halfpred = 0.49999999999999994 (the largest double below 1/2: x + 0.5 rounds up to 1.0 in double arithmetic);
\* odd52 = 2^52 + 1 (an odd integer with ulp 1: x + 0.5 is a tie that rounds to the even neighbour)
NamedFacts(id) ==
  CASE id = "halfpred" -> [floor |-> Zero(1), ceil |-> Fin(1, 1, 1), round |-> Zero(1), s |-> 1, int |-> FALSE]
    [] id = "-halfpred" -> [floor |-> Fin(-1, 1, 1), ceil |-> Zero(-1), round |-> Zero(-1), s |-> -1, int |-> FALSE]
    [] id = "odd52" -> [floor |-> NamedNum("odd52"), ceil |-> NamedNum("odd52"), round |-> NamedNum("odd52"), s |-> 1, int |-> TRUE]
    [] id = "-odd52" -> [floor |-> NamedNum("-odd52"), ceil |-> NamedNum("-odd52"), round |-> NamedNum("-odd52"), s |-> -1, int |-> TRUE]
    \* three62 = 3 * 2^62 = 13835058055282163712: an integer above 2^63 (beyond int64, inside uint64) that is not a power of two
    [] id = "-three62" -> [floor |-> NamedNum("-three62"), ceil |-> NamedNum("-three62"), round |-> NamedNum("-three62"), s |-> -1, int |-> TRUE]
    [] id = "three62" -> [floor |-> NamedNum("three62"), ceil |-> NamedNum("three62"), round |-> NamedNum("three62"), s |-> 1, int |-> TRUE]
NegId(id) == CASE id = "halfpred" -> "-halfpred" [] id = "-halfpred" -> "halfpred" [] id = "odd52" -> "-odd52" [] id = "-odd52" -> "odd52" [] id = "three62" -> "-three62" [] id = "-three62" -> "three62"
IsP2(a) == a.c = "pow2"
Pow2(s, e) == [c |-> "pow2", s |-> s, e |-> e]
\* 2^e as a double: overflow to infinity above 1023, underflow to zero below -1074 (ties-to-even at -1075)
MkPow2(s, e) == IF e > 1023 THEN Inf(s) ELSE IF e < -1074 THEN Zero(s) ELSE IF e >= 31 \/ e <= -21 THEN Pow2(s, e) ELSE [c |-> "unk"]
RECURSIVE PowMod(_, _, _)
PowMod(b, e, m) == IF e = 0 THEN 1 % m ELSE IF e % 2 = 0 THEN LET h == PowMod(b, e \div 2, m) IN (h * h) % m ELSE (b * PowMod(b, e - 1, m)) % m

RECURSIVE Log2(_)
Log2(d) == IF d = 1 THEN 0 ELSE 1 + Log2(d \div 2)
RECURSIVE IsPow2(_)
IsPow2(d) == IF d = 1 THEN TRUE ELSE IF d % 2 # 0 THEN FALSE ELSE IsPow2(d \div 2)
\* exact == the abstract value is exactly a double
Exact(a) == IF a.c = "fin" THEN IsPow2(a.d) ELSE a.c # "unk"
Small(a) == a.c \in {"fin", "zero"}
Sgn(a) == IF a.c \in {"inf", "zero", "fin", "pow2"} THEN a.s ELSE IF a.c = "named" THEN NamedFacts(a.id).s ELSE 1
SN(a) == a.s * a.n   \* signed numerator of a fin

Neg(a) == CASE a.c = "nan" -> a
            [] a.c = "named" -> NamedNum(NegId(a.id))
            [] a.c = "unk" -> a
            [] a.c = "inf" -> Inf(-a.s)
            [] a.c = "zero" -> Zero(-a.s)
            [] OTHER -> [a EXCEPT !.s = -a.s]

Add(a, b) ==
  IF IsNan(a) \/ IsNan(b) THEN Nan
  ELSE IF IsUnk(a) \/ IsUnk(b) THEN Unk
  ELSE IF IsInf(a) THEN (IF IsInf(b) /\ b.s # a.s THEN Nan ELSE a)
  ELSE IF IsInf(b) THEN b
  ELSE IF IsZero(a) THEN (IF IsZero(b) THEN (IF a.s = -1 /\ b.s = -1 THEN Zero(-1) ELSE Zero(1)) ELSE b)
  ELSE IF IsZero(b) THEN a
  ELSE IF IsNamed(a) \/ IsNamed(b) THEN Unk
  ELSE IF IsP2(a) \/ IsP2(b) THEN
    \* x + x = 2x, x - x = +0; a huge value absorbs a small one (|small| < 2^31 is below half an ulp of 2^85 and more)
    (IF IsP2(a) /\ IsP2(b) /\ a.e = b.e THEN (IF a.s = b.s THEN MkPow2(a.s, a.e + 1) ELSE Zero(1))
     ELSE IF IsP2(a) /\ a.e >= 85 /\ IsFin(b) THEN a
     ELSE IF IsP2(b) /\ b.e >= 85 /\ IsFin(a) THEN b
     ELSE Unk)
  ELSE IF ~Exact(a) \/ ~Exact(b) THEN Unk
  ELSE Mk(SN(a) * b.d + SN(b) * a.d, a.d * b.d, 1)

Sub(a, b) == Add(a, Neg(b))

Mul(a, b) ==
  IF IsNan(a) \/ IsNan(b) THEN Nan
  ELSE IF IsUnk(a) \/ IsUnk(b) \/ IsNamed(a) \/ IsNamed(b) THEN Unk
  ELSE LET s == a.s * b.s IN
    IF (IsInf(a) /\ IsZero(b)) \/ (IsZero(a) /\ IsInf(b)) THEN Nan
    ELSE IF IsInf(a) \/ IsInf(b) THEN Inf(s)
    ELSE IF IsZero(a) \/ IsZero(b) THEN Zero(s)
    ELSE IF IsP2(a) /\ IsP2(b) THEN MkPow2(s, a.e + b.e)
    ELSE IF IsP2(a) \/ IsP2(b) THEN
      \* 2^e times a power of two 2^k or 1/2^k
      LET p == IF IsP2(a) THEN a ELSE b  f == IF IsP2(a) THEN b ELSE a IN
      IF f.n = 1 /\ IsPow2(f.d) THEN MkPow2(s, p.e - Log2(f.d)) ELSE IF f.d = 1 /\ IsPow2(f.n) THEN MkPow2(s, p.e + Log2(f.n)) ELSE Unk
    ELSE IF ~Exact(a) \/ ~Exact(b) THEN Unk
    ELSE Fin(s, a.n * b.n, a.d * b.d)

Div(a, b) ==
  IF IsNan(a) \/ IsNan(b) THEN Nan
  ELSE IF IsUnk(a) \/ IsUnk(b) \/ IsNamed(a) \/ IsNamed(b) THEN Unk
  ELSE LET s == a.s * b.s IN
    IF (IsInf(a) /\ IsInf(b)) \/ (IsZero(a) /\ IsZero(b)) THEN Nan
    ELSE IF IsInf(a) \/ IsZero(b) THEN Inf(s)
    ELSE IF IsZero(a) \/ IsInf(b) THEN Zero(s)
    ELSE IF IsP2(a) /\ IsP2(b) THEN (IF a.e - b.e \in -20..30 THEN Unk ELSE MkPow2(s, a.e - b.e))   \* (a quotient back in the small range is left undetermined)
    ELSE IF IsP2(b) /\ IsFin(a) /\ a.n = 1 /\ a.d = 1 THEN MkPow2(s, -b.e)                                         \* 1 div 2^e
    ELSE IF IsP2(a) \/ IsP2(b) THEN Unk
    ELSE IF ~Exact(a) \/ ~Exact(b) THEN Unk
    ELSE Fin(s, a.n * b.d, a.d * b.n)

\* XPath mod: remainder of truncating division, sign of the dividend (like % in Java/ECMAScript)
Mod(a, b) ==
  IF IsNan(a) \/ IsNan(b) THEN Nan
  ELSE IF IsUnk(a) \/ IsUnk(b) \/ IsNamed(a) \/ IsNamed(b) THEN Unk
  ELSE IF IsInf(a) \/ IsZero(b) THEN Nan
  ELSE IF IsInf(b) \/ IsZero(a) THEN a
  ELSE IF IsP2(b) THEN (IF IsFin(a) /\ b.e >= 31 THEN a ELSE IF IsP2(a) /\ a.e < b.e THEN a ELSE IF IsP2(a) THEN Zero(a.s) ELSE Unk)   \* |a| < |b|: a itself; 2^i mod 2^j (i >= j) = 0
  ELSE IF IsP2(a) THEN
    \* 2^e mod an integer m (e >= 31): exact, by modular exponentiation; sign of the dividend
    (IF a.e >= 31 /\ IsFin(b) /\ b.d = 1 THEN Mk(a.s * PowMod(2, a.e, b.n), 1, a.s) ELSE Unk)
  ELSE IF ~Exact(a) \/ ~Exact(b) THEN Unk
  ELSE Mk(a.s * ((a.n * b.d) % (b.n * a.d)), a.d * b.d, a.s)

\* comparisons (IEEE: NaN compares false with everything)
\* a named double lies strictly between two bracketing numerals: it is above everything at or below the
\* lower bracket and below everything at or above the upper one; in between the comparison is unknown
NamedBracket(id) ==
  CASE id = "halfpred" -> <<Fin(1, 1, 4), Fin(1, 1, 2)>>
    [] id = "-halfpred" -> <<Fin(-1, 1, 2), Fin(-1, 1, 4)>>
    [] id = "odd52" -> <<Pow2(1, 52), Pow2(1, 53)>>
    [] id = "-odd52" -> <<Pow2(-1, 53), Pow2(-1, 52)>>
    [] id = "three62" -> <<Pow2(1, 63), Pow2(1, 64)>>
    [] id = "-three62" -> <<Pow2(-1, 64), Pow2(-1, 63)>>
RECURSIVE Cmp(_, _)
CmpNamed(id, x) ==   \* x is not named, not nan, not unk
  LET br == NamedBracket(id) IN
  IF Cmp(x, br[1]) \in {-1, 0} THEN 1 ELSE IF Cmp(x, br[2]) \in {0, 1} THEN -1 ELSE 3
Cmp(a, b) == \* -1, 0, 1 for comparable values; 2 when unordered; 3 unknown
  IF IsUnk(a) \/ IsUnk(b) THEN 3
  ELSE IF IsNan(a) \/ IsNan(b) THEN 2
  ELSE IF IsNamed(a) /\ IsNamed(b) THEN (IF a = b THEN 0 ELSE IF NamedFacts(a.id).s # NamedFacts(b.id).s THEN NamedFacts(a.id).s ELSE 3)
  ELSE IF IsNamed(a) THEN CmpNamed(a.id, b)
  ELSE IF IsNamed(b) THEN (LET r == CmpNamed(b.id, a) IN IF r = 3 THEN 3 ELSE -r)
  ELSE IF IsInf(a) THEN (IF IsInf(b) /\ b.s = a.s THEN 0 ELSE a.s)
  ELSE IF IsInf(b) THEN -b.s
  ELSE IF IsP2(a) \/ IsP2(b) THEN
    \* magnitude classes: tiny (2^e, e <= -21) < every fin < big (2^e, e >= 31); zero below all
    LET Key(z) == IF IsZero(z) THEN <<0, 0>> ELSE IF IsP2(z) THEN <<z.s * (IF z.e >= 31 THEN 3 ELSE 1), z.s * z.e>> ELSE <<z.s * 2, 0>>
        ka == Key(a) kb == Key(b)
    IN IF ka[1] # kb[1] THEN (IF ka[1] < kb[1] THEN -1 ELSE 1)
       ELSE IF IsP2(a) /\ IsP2(b) THEN (IF ka[2] < kb[2] THEN -1 ELSE IF ka[2] = kb[2] THEN 0 ELSE 1)
       ELSE 3
  ELSE LET x == IF IsZero(a) THEN 0 ELSE SN(a)
           xd == IF IsZero(a) THEN 1 ELSE a.d
           y == IF IsZero(b) THEN 0 ELSE SN(b)
           yd == IF IsZero(b) THEN 1 ELSE b.d
           l == x * yd
           r == y * xd
       IN IF l < r THEN -1 ELSE IF l = r THEN 0 ELSE 1

NumEq(a, b) == Cmp(a, b) = 0
NumLt(a, b) == Cmp(a, b) = -1
NumLe(a, b) == Cmp(a, b) \in {-1, 0}
NumKnown(a, b) == Cmp(a, b) # 3

FloorDiv(sn, d) == IF sn >= 0 THEN sn \div d ELSE -(((-sn) + d - 1) \div d)

\* 2^e: an integer for e >= 0, a tiny fraction for e < 0
Floor(a) == IF IsNamed(a) THEN NamedFacts(a.id).floor ELSE IF IsP2(a) THEN (IF a.e >= 0 THEN a ELSE IF a.s = 1 THEN Zero(1) ELSE Fin(-1, 1, 1))
            ELSE IF a.c # "fin" THEN a
            ELSE Mk(FloorDiv(SN(a), a.d), 1, a.s)
Ceil(a) == IF IsNamed(a) THEN NamedFacts(a.id).ceil ELSE IF IsP2(a) THEN (IF a.e >= 0 THEN a ELSE IF a.s = 1 THEN Fin(1, 1, 1) ELSE Zero(-1))
           ELSE IF a.c # "fin" THEN a
           ELSE Mk(-FloorDiv(-SN(a), a.d), 1, a.s)
\* round(): closest integer, ties toward +infinity; [-0.5, -0) gives -0
Round(a) == IF IsNamed(a) THEN NamedFacts(a.id).round ELSE IF IsP2(a) THEN (IF a.e >= 0 THEN a ELSE Zero(a.s))
            ELSE IF a.c # "fin" THEN a
            ELSE Mk(FloorDiv(2 * SN(a) + a.d, 2 * a.d), 1, a.s)

\* Known finding "round-neg-tie-down" (see known_findings.json): the code rounds negative ties
\* below -0.5 away from zero (round(-1.5) = -2), pinned by the repository's TestFunctionRound
RoundNegTieDown(a) == IF a.c = "fin" /\ a.s = -1 /\ a.d = 2 /\ a.n > 1 THEN Floor(a) ELSE Round(a)

IsInteger(a) == (a.c = "named" /\ NamedFacts(a.id).int) \/ a.c = "zero" \/ (a.c = "fin" /\ a.d = 1) \/ (a.c = "pow2" /\ a.e >= 0)

\* the integer value of a numeral that IsInteger
IntVal(a) == IF a.c = "zero" THEN 0 ELSE SN(a)

NumTrue(a) == ~(IsNan(a) \/ IsZero(a))   \* boolean(number); unk handled by callers
=============================================================================
