------------------------------- MODULE XNum -------------------------------
(* XPath 1.0 numbers (IEEE-754 doubles) on an exact abstract domain.        *)
(*                                                                          *)
(* A numeral is one of                                                      *)
(*   [c |-> "nan"]                                                          *)
(*   [c |-> "inf",  s |-> 1 | -1]                                           *)
(*   [c |-> "zero", s |-> 1 | -1]                                           *)
(*   [c |-> "fin",  s |-> 1 | -1, n |-> Nat \ {0}, d |-> Nat \ {0}]         *)
(*        the rational s*n/d in lowest terms; when d is a power of two the  *)
(*        value is a double and every operation below is exact in IEEE-754; *)
(*        otherwise it denotes the double nearest to n/d (a correctly       *)
(*        rounded quotient) and may only be compared, rounded or printed    *)
(*        as a result -- arithmetic on it yields "unk".                     *)
(*   [c |-> "unk"]   the specification does not determine the double        *)
(*                   (judges skip such cases; never produced on the exact   *)
(*                   sub-domain the generators stay in).                    *)
(***************************************************************************)
EXTENDS Integers, Sequences

Nan == [c |-> "nan"]
Unk == [c |-> "unk"]
Inf(s) == [c |-> "inf", s |-> s]
Zero(s) == [c |-> "zero", s |-> s]

RECURSIVE GCD(_, _)
GCD(a, b) == IF b = 0 THEN a ELSE GCD(b, a % b)

Fin(s, n, d) == LET g == GCD(n, d) IN [c |-> "fin", s |-> s, n |-> n \div g, d |-> d \div g]
\* signed numerator sn (any integer) over positive d; zs = sign to use when the value is zero
Mk(sn, d, zs) == IF sn = 0 THEN Zero(zs) ELSE IF sn > 0 THEN Fin(1, sn, d) ELSE Fin(-1, -sn, d)
NInt(k) == Mk(k, 1, 1)
Rat(sn, d) == Mk(sn, d, 1)

IsNan(a) == a.c = "nan"
IsUnk(a) == a.c = "unk"
IsInf(a) == a.c = "inf"
IsZero(a) == a.c = "zero"
IsFin(a) == a.c = "fin"

RECURSIVE IsPow2(_)
IsPow2(d) == IF d = 1 THEN TRUE ELSE IF d % 2 # 0 THEN FALSE ELSE IsPow2(d \div 2)
\* exact == the abstract value is exactly a double
Exact(a) == IF a.c = "fin" THEN IsPow2(a.d) ELSE a.c # "unk"
Sgn(a) == IF a.c \in {"inf", "zero", "fin"} THEN a.s ELSE 1
SN(a) == a.s * a.n   \* signed numerator of a fin

Neg(a) == CASE a.c = "nan" -> a
            [] a.c = "unk" -> a
            [] a.c = "inf" -> Inf(-a.s)
            [] a.c = "zero" -> Zero(-a.s)
            [] OTHER -> [a EXCEPT !.s = -a.s]

Add(a, b) ==
  IF IsNan(a) \/ IsNan(b) THEN Nan
  ELSE IF IsUnk(a) \/ IsUnk(b) THEN Unk
  ELSE IF IsInf(a) THEN (IF IsInf(b) /\ b.s # a.s THEN Nan ELSE a)
  ELSE IF IsInf(b) THEN b
  ELSE IF IsZero(a) THEN (IF IsZero(b) THEN (IF a.s = -1 /\ b.s = -1 THEN Zero(-1) ELSE Zero(1)) ELSE b)
  ELSE IF IsZero(b) THEN a
  ELSE IF ~Exact(a) \/ ~Exact(b) THEN Unk
  ELSE Mk(SN(a) * b.d + SN(b) * a.d, a.d * b.d, 1)

Sub(a, b) == Add(a, Neg(b))

Mul(a, b) ==
  IF IsNan(a) \/ IsNan(b) THEN Nan
  ELSE IF IsUnk(a) \/ IsUnk(b) THEN Unk
  ELSE LET s == a.s * b.s IN
    IF (IsInf(a) /\ IsZero(b)) \/ (IsZero(a) /\ IsInf(b)) THEN Nan
    ELSE IF IsInf(a) \/ IsInf(b) THEN Inf(s)
    ELSE IF IsZero(a) \/ IsZero(b) THEN Zero(s)
    ELSE IF ~Exact(a) \/ ~Exact(b) THEN Unk
    ELSE Fin(s, a.n * b.n, a.d * b.d)

Div(a, b) ==
  IF IsNan(a) \/ IsNan(b) THEN Nan
  ELSE IF IsUnk(a) \/ IsUnk(b) THEN Unk
  ELSE LET s == a.s * b.s IN
    IF (IsInf(a) /\ IsInf(b)) \/ (IsZero(a) /\ IsZero(b)) THEN Nan
    ELSE IF IsInf(a) \/ IsZero(b) THEN Inf(s)
    ELSE IF IsZero(a) \/ IsInf(b) THEN Zero(s)
    ELSE IF ~Exact(a) \/ ~Exact(b) THEN Unk
    ELSE Fin(s, a.n * b.d, a.d * b.n)

\* XPath mod: remainder of truncating division, sign of the dividend (like % in Java/ECMAScript)
Mod(a, b) ==
  IF IsNan(a) \/ IsNan(b) THEN Nan
  ELSE IF IsUnk(a) \/ IsUnk(b) THEN Unk
  ELSE IF IsInf(a) \/ IsZero(b) THEN Nan
  ELSE IF IsInf(b) \/ IsZero(a) THEN a
  ELSE IF ~Exact(a) \/ ~Exact(b) THEN Unk
  ELSE Mk(a.s * ((a.n * b.d) % (b.n * a.d)), a.d * b.d, a.s)

\* comparisons (IEEE: NaN compares false with everything)
Cmp(a, b) == \* -1, 0, 1 for comparable values; 2 when unordered; 3 unknown
  IF IsUnk(a) \/ IsUnk(b) THEN 3
  ELSE IF IsNan(a) \/ IsNan(b) THEN 2
  ELSE IF IsInf(a) THEN (IF IsInf(b) /\ b.s = a.s THEN 0 ELSE a.s)
  ELSE IF IsInf(b) THEN -b.s
  ELSE LET x == IF IsZero(a) THEN 0 ELSE SN(a)
           xd == IF IsZero(a) THEN 1 ELSE a.d
           y == IF IsZero(b) THEN 0 ELSE SN(b)
           yd == IF IsZero(b) THEN 1 ELSE b.d
           l == x * yd
           r == y * xd
       IN IF l < r THEN -1 ELSE IF l = r THEN 0 ELSE 1

NumEq(a, b) == Cmp(a, b) = 0
NumLt(a, b) == Cmp(a, b) = -1
NumLe(a, b) == Cmp(a, b) \in {-1, 0}
NumKnown(a, b) == Cmp(a, b) # 3

FloorDiv(sn, d) == IF sn >= 0 THEN sn \div d ELSE -(((-sn) + d - 1) \div d)

Floor(a) == IF a.c # "fin" THEN a
            ELSE Mk(FloorDiv(SN(a), a.d), 1, a.s)
Ceil(a) == IF a.c # "fin" THEN a
           ELSE Mk(-FloorDiv(-SN(a), a.d), 1, a.s)
\* round(): closest integer, ties toward +infinity; [-0.5, -0) gives -0
Round(a) == IF a.c # "fin" THEN a
            ELSE Mk(FloorDiv(2 * SN(a) + a.d, 2 * a.d), 1, a.s)

\* Known finding "round-neg-tie-down" (see known_findings.json): the code rounds negative ties
\* below -0.5 away from zero (round(-1.5) = -2), pinned by the repository's TestFunctionRound
RoundNegTieDown(a) == IF a.c = "fin" /\ a.s = -1 /\ a.d = 2 /\ a.n > 1 THEN Floor(a) ELSE Round(a)

IsInteger(a) == a.c = "zero" \/ (a.c = "fin" /\ a.d = 1)

\* the integer value of a numeral that IsInteger
IntVal(a) == IF a.c = "zero" THEN 0 ELSE SN(a)

NumTrue(a) == ~(IsNan(a) \/ IsZero(a))   \* boolean(number); unk handled by callers
=============================================================================
