------------------------------ MODULE MC_C01 ------------------------------
(* C01: location steps select exactly the XPath 1.0 axis / node-test set.   *)
(* Model: the document-building machine (Store) over small pools; the       *)
(* design-level invariants are the partition / duality / root laws of the   *)
(* property statement, evaluated on every reachable document; the Emit      *)
(* invariant (generator configuration only) writes one replay line per      *)
(* complete document with the expected node set of every                    *)
(* (context node, axis, node test) triple.                                  *)
(***************************************************************************)
EXTENDS Store, XGen

CONSTANTS EmitOn,  \* TRUE in the generator configuration
          EmitFam  \* "C01" | "C04": which family the generator writes

C_ElemNames == {Nm(<<>>, <<"a">>), Nm(U1, <<"a">>), Nm(<<>>, <<"b">>)}
C_AttrNames == {Nm(<<>>, <<"a">>), Nm(U1, <<"a">>)}
C_AttrValues == {<<"1">>}
C_NsDecls == {[lo |-> <<"p">>, v |-> U1]}
C_Texts == {<<"x">>}
C_Comments == {<<"c">>}
C_PIs == {[lo |-> <<"t">>, v |-> <<"d">>]}
View == <<doc, open, phase>>

TreeIds == {n \in Ids(doc) : IsTree(doc, n)}

\* for any tree node: ancestor, descendant, following, preceding, self partition the tree nodes
Partition == \A n \in TreeIds :
  LET P == <<Anc(doc, n), Desc(doc, n), Following(doc, n), Preceding(doc, n), {n}>> IN
  /\ UNION {P[i] : i \in 1..5} = TreeIds
  /\ \A i \in 1..5, j \in 1..5 : i # j => P[i] \cap P[j] = {}
Duals == \A n \in TreeIds, m \in TreeIds :
  /\ (m \in Axis(doc, "child", n)) <=> (n \in Axis(doc, "parent", m))
  /\ (m \in Axis(doc, "descendant", n)) <=> (n \in Axis(doc, "ancestor", m))
  /\ (m \in Axis(doc, "following", n)) <=> (n \in Axis(doc, "preceding", m))
  /\ (m \in Axis(doc, "following-sibling", n)) <=> (n \in Axis(doc, "preceding-sibling", m))
RootReached == \A n \in Ids(doc) : n # 1 => 1 \in Anc(doc, n)
RootIsolated == /\ Axis(doc, "parent", 1) = {}
                /\ Axis(doc, "following-sibling", 1) = {} /\ Axis(doc, "preceding-sibling", 1) = {}
TopLevelSiblings == \A a \in Children(doc, 1), b \in Children(doc, 1) :
                       a < b => b \in Axis(doc, "following-sibling", a) /\ a \in Axis(doc, "preceding-sibling", b)
\* attribute / namespace context nodes: no siblings, parent is the element, and the
\* element's children follow them
AttrNsContext == \A n \in Ids(doc) : ~IsTree(doc, n) =>
  /\ Axis(doc, "following-sibling", n) = {} /\ Axis(doc, "preceding-sibling", n) = {}
  /\ Axis(doc, "parent", n) = {doc[n].p}
  /\ Desc(doc, doc[n].p) \subseteq Following(doc, n)
  /\ Axis(doc, "child", n) = {} /\ Axis(doc, "descendant", n) = {}

Env == EnvNs([p |-> U1])
Tests == {T_node, T_text, T_comment, T_pi, T_pit(<<"t">>), T_any,
          T_name("", <<"a">>), T_name("p", <<"a">>), T_nsany("p"), T_localany(<<"a">>)}
\* name tests on the namespace axis follow the library's own rule: outside the property
InScope(ax, t) == ax = "namespace" => t.k \in {"node", "any", "text", "comment", "pi", "pit"}
Pool == SetToSeq({Rel(<<Step(ax, t)>>) : <<ax, t>> \in {x \in AxisNames \X Tests : InScope(x[1], x[2])}})
\* C04: the string-value of every node kind, and node-set -> string / number / boolean through
\* the first node in document order (also for sets produced by reverse axes)
FnS(nm, args) == Call(nm, args)
AxNode(ax) == Rel(<<Step(ax, T_node)>>)
PoolC04 == << FnS(<<"s","t","r","i","n","g">>, <<>>), FnS(<<"s","t","r","i","n","g">>, <<Rel(<<Self>>)>>), FnS(<<"n","u","m","b","e","r">>, <<>>),
              FnS(<<"b","o","o","l","e","a","n">>, <<Rel(<<Self>>)>>), FnS(<<"s","t","r","i","n","g","-","l","e","n","g","t","h">>, <<>>) >>
           \o [i \in 1..Len(SetToSeq(AxisNames \ {"namespace"})) |-> FnS(<<"s","t","r","i","n","g">>, <<AxNode(SetToSeq(AxisNames \ {"namespace"})[i])>>)]
           \o << FnS(<<"c","o","n","c","a","t">>, <<AxNode("ancestor-or-self"), Lit(<<"|">>), AxNode("preceding")>>),
                 FnS(<<"b","o","o","l","e","a","n">>, <<AxNode("preceding-sibling")>>),
                 FnS(<<"n","u","m","b","e","r">>, <<AxNode("ancestor")>>), Bin("eq", AxNode("preceding"), Lit(<<"x">>)),
                 FnS(<<"s","t","r","i","n","g">>, <<Abs(<<>>)>>), FnS(<<"n","o","t">>, <<FnS(<<"n","o","t">>, <<AxNode("child")>>)>>) >>
ASSUME EmitOn => EmitPool("C01.steps", Pool) /\ EmitPool("C04.nodes", PoolC04)
Emit == (EmitOn /\ Complete) =>
  IF EmitFam = "C04" THEN EmitLine("C04.nodes", doc, Env, AllCCases(doc, Env, PoolC04))
  ELSE EmitLine("C01.steps", doc, Env, AllCCases(doc, Env, Pool))
=============================================================================
