------------------------------ MODULE MC_C01 ------------------------------
(* C01: location steps select exactly the XPath 1.0 axis / node-test set.   *)
(* Model: the document-building machine (Store) over small pools; the       *)
(* design-level invariants are the partition / duality / root laws of the   *)
(* property statement, evaluated on every reachable document; the Emit      *)
(* invariant (generator configuration only) writes one replay line per      *)
(* complete document with the expected node set of every                    *)
(* (context node, axis, node test) triple.                                  *)
(***************************************************************************)
EXTENDS Store, XGen

CONSTANTS EmitOn,  \* TRUE in the generator configuration
          EmitFam  \* "C01" | "C04": which family the generator writes

C_ElemNames == {Nm(<<>>, <<"a">>), Nm(U1, <<"a">>), Nm(<<>>, <<"b">>)}
C_AttrNames == {Nm(<<>>, <<"a">>), Nm(U1, <<"a">>)}
C_AttrValues == {<<"1">>}
C_NsDecls == {[lo |-> <<"p">>, v |-> U1]}
C_Texts == {<<"x">>}
C_Comments == {<<"c">>}
C_PIs == {[lo |-> <<"t">>, v |-> <<"d">>]}
View == <<doc, open, phase>>

TreeIds == {n \in Ids(doc) : IsTree(doc, n)}

\* for any tree node: ancestor, descendant, following, preceding, self partition the tree nodes
Partition == \A n \in TreeIds :
  LET P == <<Anc(doc, n), Desc(doc, n), Following(doc, n), Preceding(doc, n), {n}>> IN
  /\ UNION {P[i] : i \in 1..5} = TreeIds
  /\ \A i \in 1..5, j \in 1..5 : i # j => P[i] \cap P[j] = {}
Duals == \A n \in TreeIds, m \in TreeIds :
  /\ (m \in Axis(doc, "child", n)) <=> (n \in Axis(doc, "parent", m))
  /\ (m \in Axis(doc, "descendant", n)) <=> (n \in Axis(doc, "ancestor", m))
  /\ (m \in Axis(doc, "following", n)) <=> (n \in Axis(doc, "preceding", m))
  /\ (m \in Axis(doc, "following-sibling", n)) <=> (n \in Axis(doc, "preceding-sibling", m))
RootReached == \A n \in Ids(doc) : n # 1 => 1 \in Anc(doc, n)
RootIsolated == /\ Axis(doc, "parent", 1) = {}
                /\ Axis(doc, "following-sibling", 1) = {} /\ Axis(doc, "preceding-sibling", 1) = {}
TopLevelSiblings == \A a \in Children(doc, 1), b \in Children(doc, 1) :
                       a < b => b \in Axis(doc, "following-sibling", a) /\ a \in Axis(doc, "preceding-sibling", b)
\* attribute / namespace context nodes: no siblings, parent is the element, and the
\* element's children follow them
AttrNsContext == \A n \in Ids(doc) : ~IsTree(doc, n) =>
  /\ Axis(doc, "following-sibling", n) = {} /\ Axis(doc, "preceding-sibling", n) = {}
  /\ Axis(doc, "parent", n) = {doc[n].p}
  /\ Desc(doc, doc[n].p) \subseteq Following(doc, n)
  /\ Axis(doc, "child", n) = {} /\ Axis(doc, "descendant", n) = {}

Env == EnvNs([p |-> U1])
Tests == {T_node, T_text, T_comment, T_pi, T_pit(<<"t">>), T_any,
          T_name("", <<"a">>), T_name("p", <<"a">>), T_nsany("p"), T_localany(<<"a">>)}
\* name tests on the namespace axis follow the library's own rule: outside the property
InScope(ax, t) == ax = "namespace" => t.k \in {"node", "any", "text", "comment", "pi", "pit"}
Pool == SetToSeq({Rel(<<Step(ax, t)>>) : <<ax, t>> \in {x \in AxisNames \X Tests : InScope(x[1], x[2])}})
\* C04: the string-value of every node kind, and node-set -> string / number / boolean through
\* the first node in document order (also for sets produced by reverse axes)
FnS(nm, args) == Call(nm, args)
AxNode(ax) == Rel(<<Step(ax, T_node)>>)
PoolC04 == << FnS(<<"s","t","r","i","n","g">>, <<>>), FnS(<<"s","t","r","i","n","g">>, <<Rel(<<Self>>)>>), FnS(<<"n","u","m","b","e","r">>, <<>>),
              FnS(<<"b","o","o","l","e","a","n">>, <<Rel(<<Self>>)>>), FnS(<<"s","t","r","i","n","g","-","l","e","n","g","t","h">>, <<>>) >>
           \o [i \in 1..Len(SetToSeq(AxisNames \ {"namespace"})) |-> FnS(<<"s","t","r","i","n","g">>, <<AxNode(SetToSeq(AxisNames \ {"namespace"})[i])>>)]
           \o << FnS(<<"c","o","n","c","a","t">>, <<AxNode("ancestor-or-self"), Lit(<<"|">>), AxNode("preceding")>>),
                 FnS(<<"b","o","o","l","e","a","n">>, <<AxNode("preceding-sibling")>>),
                 FnS(<<"n","u","m","b","e","r">>, <<AxNode("ancestor")>>), Bin("eq", AxNode("preceding"), Lit(<<"x">>)),
                 FnS(<<"s","t","r","i","n","g">>, <<Abs(<<>>)>>), FnS(<<"n","o","t">>, <<FnS(<<"n","o","t">>, <<AxNode("child")>>)>>),
                 \* the string functions work on the string-value: of an element, the text of its descendants - no comment, no PI
                 FnS(<<"s","t","r","i","n","g","-","l","e","n","g","t","h">>, <<AxNode("parent")>>), FnS(<<"s","t","r","i","n","g","-","l","e","n","g","t","h">>, <<Abs(<<>>)>>),
                 FnS(<<"n","o","r","m","a","l","i","z","e","-","s","p","a","c","e">>, <<>>), FnS(<<"s","t","r","i","n","g","-","l","e","n","g","t","h">>, <<AxNode("ancestor-or-self")>>),
                 FnS(<<"c","o","n","t","a","i","n","s">>, <<AxNode("parent"), Rel(<<Self>>)>>), FnS(<<"s","t","a","r","t","s","-","w","i","t","h">>, <<Rel(<<Self>>), Rel(<<Self>>)>>) >>
\* absolute paths start at the root wherever they occur: inside predicates and function arguments,
\* from every start node; multi-step and abbreviated forms
AllA == Abs(<<DoS, Step("child", T_name("", <<"a">>))>>)
CountE(e) == Call(<<"c","o","u","n","t">>, <<e>>)
PoolAbs == << Abs(<<>>), AllA, Abs(<<Step("child", T_any)>>), CountE(Abs(<<DoS, Step("child", T_node)>>)), CountE(Abs(<<Step("descendant", T_any)>>)),
              Rel(<<StepP("self", T_node, <<AllA>>)>>), Rel(<<StepP("self", T_node, <<Abs(<<Step("child", T_name("", <<"b">>))>>)>>)>>),
              Rel(<<StepP("descendant-or-self", T_node, <<Bin("eq", Rel(<<Self>>), Abs(<<DoS, Step("child", T_text)>>))>>)>>),
              Rel(<<StepP("ancestor-or-self", T_node, <<Bin("eq", CountE(Abs(<<Step("child", T_node)>>)), CountE(Rel(<<Step("child", T_node)>>)))>>)>>),
              Call(<<"s","t","r","i","n","g">>, <<Abs(<<Step("child", T_any), Step("child", T_node)>>)>>),
              Bin("union", Rel(<<Step("child", T_node)>>), Abs(<<Step("child", T_node)>>)),
              Rel(<<Step("parent", T_node), Step("child", T_node)>>), Rel(<<Step("ancestor", T_any), Step("attribute", T_any)>>),
              Rel(<<Step("preceding-sibling", T_node), Step("following-sibling", T_node)>>), Rel(<<DoS, Step("attribute", T_any)>>),
              Rel(<<Step("child", T_any), DoS, Step("child", T_text)>>), Abs(<<DoS, Step("child", T_any), Step("parent", T_node), Step("namespace", T_any)>>),
              Rel(<<Step("following", T_node), Step("preceding", T_node)>>), Abs(<<DoS, Step("self", T_nsany("p"))>>),
              Filter(AllA, <<>>, <<Step("parent", T_node)>>), Rel(<<Step("attribute", T_any), Step("parent", T_node), Step("attribute", T_any)>>),
              Rel(<<Step("namespace", T_any), Step("parent", T_any)>>), Rel(<<Step("attribute", T_any), Step("following", T_node)>>),
              Rel(<<Step("namespace", T_any), Step("preceding", T_node)>>),
              \* inside a predicate evaluated for several context nodes: the argument of count() starts with an absolute path, but
              \* its other operand depends on the context node
              Abs(<<DoS, StepP("child", T_node, <<Bin("eq", CountE(Bin("union", Abs(<<Step("child", T_any)>>), Rel(<<Step("preceding-sibling", T_node)>>))), IntE(2))>>)>>),
              Abs(<<DoS, StepP("child", T_node, <<Call(<<"b","o","o","l","e","a","n">>, <<Bin("eq", Abs(<<Step("child", T_any), Step("child", T_node)>>), Rel(<<Self>>))>>)>>)>>),
              CountE(Abs(<<DoS, StepP("child", T_any, <<Bin("gt", CountE(Bin("union", Abs(<<DoS, Step("child", T_text)>>), Rel(<<Step("ancestor", T_node)>>))), CountE(Abs(<<DoS, Step("child", T_text)>>)))>>)>>)) >>
\* every two-step path: the second step starts from whatever the first selected (attributes and
\* namespace nodes included), and its name test is judged against ITS axis' principal node type
Tests1 == {T_node, T_any}
Tests2 == {T_any, T_node, T_name("", <<"a">>)}
Pool2 == SetToSeq({Rel(<<Step(a1, t1), Step(a2, t2)>>) : <<a1, t1, a2, t2>> \in
            {x \in AxisNames \X Tests1 \X AxisNames \X Tests2 : InScope(x[1], x[2]) /\ InScope(x[3], x[4])}})
\* ... and the same inside a predicate
PoolPredSelf == SetToSeq({Abs(<<DoS, StepP(a1, T_any, <<Rel(<<Step(a2, t2)>>)>>)>>) : <<a1, a2, t2>> \in
            {"attribute", "child", "namespace"} \X {"self", "parent", "ancestor-or-self", "descendant-or-self"} \X Tests2})
ASSUME EmitOn => EmitPool("C01.steps", Pool) /\ EmitPool("C04.nodes", PoolC04) /\ EmitPool("C01.abs", PoolAbs) /\ EmitPool("C01.two", Pool2 \o PoolPredSelf)
Emit == (EmitOn /\ Complete) =>
  IF EmitFam = "C04" THEN EmitLine("C04.nodes", doc, Env, AllCCases(doc, Env, PoolC04))
  ELSE IF EmitFam = "C01two" THEN EmitLine("C01.two", doc, Env, AllCCases(doc, Env, Pool2 \o PoolPredSelf))
  ELSE EmitLine("C01.steps", doc, Env, AllCCases(doc, Env, Pool)) /\ EmitLine("C01.abs", doc, Env, AllCCases(doc, Env, PoolAbs))
=============================================================================
