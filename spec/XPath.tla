------------------------------- MODULE XPath ------------------------------
(* XPath 1.0 expression evaluation (sections 2, 3, 4) over XDM documents.   *)
(*                                                                          *)
(* Values   [t |-> "ns",  v |-> set of node ids]                            *)
(*          [t |-> "num", v |-> numeral (XNum)]                             *)
(*          [t |-> "str", v |-> sequence of characters (XStr)]              *)
(*          [t |-> "bool", v |-> BOOLEAN]                                   *)
(*          [t |-> "err", why |-> reason]                                   *)
(* Reasons "unbound-prefix", "unbound-variable", "unbound-function",        *)
(* "count-non-nodeset" are errors the properties demand; "illtyped" and     *)
(* "unk" mean: the properties do not constrain the outcome (judges skip).   *)
(*                                                                          *)
(* Expressions (records, field op selects the shape)                        *)
(*   path    [op, abs: BOOLEAN, steps: Seq(Step)]                           *)
(*   filter  [op, prim: Expr, preds: Seq(Expr), steps: Seq(Step)]           *)
(*   or and eq ne lt le gt ge add sub mul div mod union  [op, l, r]         *)
(*   neg [op, a]   num [op, v]   lit [op, s]   var [op, pre, lo]            *)
(*   call [op, pre, lo, args: Seq(Expr)]                                    *)
(* Step  [ax, test, preds: Seq(Expr)]  or  [fn |-> call]  (the library's    *)
(*   documented extension: a function call used as a step; it is evaluated  *)
(*   once with the whole current node-set as its context)                   *)
(* Test  [k |-> "node"|"text"|"comment"|"pi"|"any"], [k |-> "pit", target], *)
(*       [k |-> "name", pre, lo], [k |-> "nsany", pre], [k |-> "localany", lo] *)
(* Environment [ns |-> [prefix |-> URI], vars |-> Seq([sp, lo, val]),       *)
(*              funcs |-> Seq([sp, lo, kind, ...])]                         *)
(* Context [cur |-> set of nodes (a singleton except inside a function      *)
(*          step), pos, size]                                               *)
(***************************************************************************)
EXTENDS XDM, XStr, TLC

NS(S) == [t |-> "ns", v |-> S]
NumV(a) == [t |-> "num", v |-> a]
StrV(s) == [t |-> "str", v |-> s]
BoolV(b) == [t |-> "bool", v |-> b]
Err(w) == [t |-> "err", why |-> w]
IsErr(v) == v.t = "err"
SkipWhys == {"illtyped", "unk"}
\* choose an error out of a non-empty set of values, preferring demanded errors
PickErr(vs) == IF \E v \in vs : IsErr(v) /\ v.why \notin SkipWhys
               THEN CHOOSE v \in vs : IsErr(v) /\ v.why \notin SkipWhys
               ELSE CHOOSE v \in vs : IsErr(v)
AnyErr(vs) == \E v \in vs : IsErr(v)
\* the same over sequences (TLC cannot build a set of values of different types)
AnyErrSeq(sq) == \E i \in 1..Len(sq) : IsErr(sq[i])
PickErrSeq(sq) == IF \E i \in 1..Len(sq) : IsErr(sq[i]) /\ sq[i].why \notin SkipWhys
                  THEN sq[CHOOSE i \in 1..Len(sq) : IsErr(sq[i]) /\ sq[i].why \notin SkipWhys]
                  ELSE sq[CHOOSE i \in 1..Len(sq) : IsErr(sq[i])]

Ctx(n) == [cur |-> {n}, pos |-> 1, size |-> 1]

(***************************************************************************)
(* Conversions (section 4: string(), number(), boolean())                  *)
(***************************************************************************)
\* [t |-> "fns", ids, strs]: a node-set of ANOTHER document (bound to a variable by the caller): ids are its nodes'
\* places in that document (document order = ascending), strs their string-values in the same order.  It can be
\* converted and compared like any node-set; navigating from it is outside what the specification determines.
FirstStr(v) == IF v.ids = <<>> THEN <<>> ELSE v.strs[CHOOSE i \in 1..Len(v.ids) : \A j \in 1..Len(v.ids) : v.ids[i] <= v.ids[j]]
IsNodes(v) == v.t \in {"ns", "fns"}
NoNodes(v) == IF v.t = "ns" THEN v.v = {} ELSE v.ids = <<>>
\* The relative order of the namespace nodes of ONE element is implementation-dependent (XPath 1.0 section 5.4): when
\* the first node of a set is such a node and the set holds another namespace node of the same element, "the first
\* node in document order" - and with it the string / number value of the set - is not determined
FirstAmbiguous(d, S) == LET m == MinOf(S) IN d[m].k = "ns" /\ \E x \in S \ {m} : d[x].k = "ns" /\ d[x].p = d[m].p
ToStr(d, v) ==
  CASE v.t = "ns" -> IF v.v = {} THEN <<>> ELSE IF FirstAmbiguous(d, v.v) THEN UnkStr ELSE StringValue(d, MinOf(v.v))
    [] v.t = "fns" -> FirstStr(v)
    [] v.t = "num" -> NumToStr(v.v)
    [] v.t = "bool" -> IF v.v THEN <<"t", "r", "u", "e">> ELSE <<"f", "a", "l", "s", "e">>
    [] v.t = "str" -> v.v
    [] v.t = "numstr" -> UnkStr         \* the spelling is not determined, only its obligations
ToNum(d, v) ==
  CASE v.t \in {"ns", "fns"} -> IF IsUnkStr(ToStr(d, v)) THEN Unk ELSE StrToNum(ToStr(d, v))
    [] v.t = "num" -> v.v
    [] v.t = "bool" -> IF v.v THEN NInt(1) ELSE NInt(0)
    [] v.t = "str" -> StrToNum(v.v)
    [] v.t = "numstr" -> v.v            \* it reads back to the same double
\* boolean() as a value (may be "unk")
ToBoolV(d, v) ==
  CASE v.t = "ns" -> BoolV(v.v # {})
    [] v.t = "fns" -> BoolV(v.ids # <<>>)
    [] v.t = "num" -> IF IsUnk(v.v) THEN Err("unk") ELSE BoolV(NumTrue(v.v))
    [] v.t = "bool" -> v
    [] v.t = "str" -> IF IsUnkStr(v.v) THEN Err("unk") ELSE BoolV(v.v # <<>>)
    [] v.t = "numstr" -> BoolV(TRUE)
StrOrErr(s) == IF IsUnkStr(s) THEN Err("unk") ELSE StrV(s)
NumOrErr(a) == IF IsUnk(a) THEN Err("unk") ELSE NumV(a)

(***************************************************************************)
(* Comparisons (section 3.4)                                               *)
(***************************************************************************)
NumCmpOp(op, a, b) == LET c == Cmp(a, b) IN
  CASE op = "eq" -> c = 0
    [] op = "ne" -> c # 0
    [] op = "lt" -> c = -1
    [] op = "le" -> c \in {-1, 0}
    [] op = "gt" -> c = 1
    [] op = "ge" -> c \in {0, 1}
\* atomic comparison of two non-node-set values
CmpAtoms(d, op, l0, r0) ==
  LET l == IF l0.t = "numstr" THEN StrV(UnkStr) ELSE l0
      r == IF r0.t = "numstr" THEN StrV(UnkStr) ELSE r0 IN
  IF op \in {"eq", "ne"} THEN
    IF l.t = "bool" \/ r.t = "bool" THEN
      LET a == ToBoolV(d, l) b == ToBoolV(d, r) IN
      IF IsErr(a) THEN a ELSE IF IsErr(b) THEN b ELSE BoolV(IF op = "eq" THEN a.v = b.v ELSE a.v # b.v)
    ELSE IF l.t = "num" \/ r.t = "num" THEN
      LET a == ToNum(d, l) b == ToNum(d, r) IN
      IF ~NumKnown(a, b) THEN Err("unk") ELSE BoolV(NumCmpOp(op, a, b))
    ELSE IF IsUnkStr(l.v) \/ IsUnkStr(r.v) THEN Err("unk")
    ELSE BoolV(IF op = "eq" THEN l.v = r.v ELSE l.v # r.v)
  ELSE LET a == ToNum(d, l) b == ToNum(d, r) IN
       IF ~NumKnown(a, b) THEN Err("unk") ELSE BoolV(NumCmpOp(op, a, b))
\* existential lifting over a set of atomic comparisons
Exists(rs) == IF \E r \in rs : ~IsErr(r) /\ r.v THEN BoolV(TRUE)
              ELSE IF AnyErr(rs) THEN PickErr(rs) ELSE BoolV(FALSE)
\* the string-values of a node-set operand (of the queried document or of another one)
StrsOf(d, v) == IF v.t = "ns" THEN {StringValue(d, a) : a \in v.v} ELSE {v.strs[i] : i \in 1..Len(v.strs)}
Compare(d, op, l, r) ==
  IF IsNodes(l) /\ IsNodes(r) THEN
    Exists({CmpAtoms(d, op, StrV(a), StrV(b)) : a \in StrsOf(d, l), b \in StrsOf(d, r)})
  ELSE IF IsNodes(l) THEN
    IF r.t = "bool" THEN CmpAtoms(d, op, BoolV(~NoNodes(l)), r)
    ELSE Exists({CmpAtoms(d, op, StrV(a), r) : a \in StrsOf(d, l)})
  ELSE IF IsNodes(r) THEN
    IF l.t = "bool" THEN CmpAtoms(d, op, l, BoolV(~NoNodes(r)))
    ELSE Exists({CmpAtoms(d, op, l, StrV(b)) : b \in StrsOf(d, r)})
  ELSE CmpAtoms(d, op, l, r)

(***************************************************************************)
(* Names                                                                   *)
(***************************************************************************)
Bound(env, pre) == pre = "" \/ pre \in DOMAIN env.ns
Uri(env, pre) == IF pre = "" THEN <<>> ELSE env.ns[pre]
TestPrefix(test) == IF test.k \in {"name", "nsany"} THEN test.pre ELSE ""
\* A NAME test on the namespace axis follows the library's own rule, not XPath's (which would compare the node's prefix): it
\* selects the namespace nodes whose URI is the URI THE QUERY binds to that name - none when the query does not bind it.  What the
\* document calls its prefixes never matters (C11: invariance under re-serialising the document with other prefixes).
RECURSIVE JoinS(_)
JoinS(s) == IF s = <<>> THEN "" ELSE s[1] \o JoinS(Tail(s))
NsNameTest(d, env, test, m) ==
  d[m].k = "ns" /\ test.pre = "" /\ JoinS(test.lo) \in DOMAIN env.ns /\ d[m].v = env.ns[JoinS(test.lo)]
NodeTest(d, env, ax, test, m) ==
  CASE test.k = "node" -> TRUE
    [] test.k = "text" -> d[m].k = "text"
    [] test.k = "comment" -> d[m].k = "comment"
    [] test.k = "pi" -> d[m].k = "pi"
    [] test.k = "pit" -> d[m].k = "pi" /\ d[m].lo = test.target
    [] test.k = "any" -> d[m].k = Principal(ax)
    [] test.k = "name" /\ ax = "namespace" -> NsNameTest(d, env, test, m)
    [] test.k = "name" -> d[m].k = Principal(ax) /\ d[m].lo = test.lo /\ d[m].sp = Uri(env, test.pre)
    [] test.k = "nsany" -> d[m].k = Principal(ax) /\ d[m].sp = Uri(env, test.pre)
    [] test.k = "localany" -> d[m].k = Principal(ax) /\ d[m].lo = test.lo

ExpandedName(d, n) == \* name(): the library's {uri}local notation
  IF d[n].k \in {"elem", "attr"} THEN
    IF d[n].sp = <<>> THEN d[n].lo ELSE <<"{">> \o d[n].sp \o <<"}">> \o d[n].lo
  ELSE IF d[n].k \in {"pi", "ns"} THEN d[n].lo ELSE <<>>
LocalNameOf(d, n) == IF d[n].k \in {"elem", "attr", "pi", "ns"} THEN d[n].lo ELSE <<>>
NamespaceUriOf(d, n) == IF d[n].k \in {"elem", "attr"} THEN d[n].sp ELSE <<>>

XmlNsUri == <<"XMLNS">>   \* one symbolic character standing for http://www.w3.org/XML/1998/namespace
LangAttrs(d, e) == {a \in AttrsOf(d, e) : d[a].sp = XmlNsUri /\ d[a].lo = <<"l", "a", "n", "g">>}
\* lang(L) for context node n
LangOf(d, n, L) ==
  LET chain == {e \in (Anc(d, n) \cup {n}) : d[e].k = "elem" /\ LangAttrs(d, e) # {}}
  IN IF chain = {} THEN FALSE
     ELSE LET e == CHOOSE x \in chain : \A y \in chain : y <= x   \* nearest = greatest id among ancestors-or-self
              val == ToLowerS(d[CHOOSE a \in LangAttrs(d, e) : TRUE].v)
              want == ToLowerS(L)
          IN val = want \/ StartsWithS(val, want \o <<"-">>)

(***************************************************************************)
(* Evaluation                                                              *)
(***************************************************************************)
\* open known-finding switches travelling with the environment (absent = none: the ideal semantics)
Fx(env) == IF "fx" \in DOMAIN env THEN env.fx ELSE {}
FindVar(env, sp, lo) == {i \in 1..Len(env.vars) : env.vars[i].sp = sp /\ env.vars[i].lo = lo}
FindFunc(env, sp, lo) == {i \in 1..Len(env.funcs) : env.funcs[i].sp = sp /\ env.funcs[i].lo = lo}
\* a bound value: inside an environment a node-set value carries its ids as a SEQUENCE
\* (that is what JSON gives); values computed by Eval carry a set
AsValue(val) == IF val.t = "ns" THEN NS(ToSet(val.v)) ELSE val

BuiltinNames == { <<"l","a","s","t">>, <<"p","o","s","i","t","i","o","n">>, <<"c","o","u","n","t">>,
  <<"l","o","c","a","l","-","n","a","m","e">>, <<"n","a","m","e","s","p","a","c","e","-","u","r","i">>,
  <<"n","a","m","e">>, <<"s","t","r","i","n","g">>, <<"c","o","n","c","a","t">>,
  <<"s","t","a","r","t","s","-","w","i","t","h">>, <<"c","o","n","t","a","i","n","s">>,
  <<"s","u","b","s","t","r","i","n","g","-","b","e","f","o","r","e">>,
  <<"s","u","b","s","t","r","i","n","g","-","a","f","t","e","r">>, <<"s","u","b","s","t","r","i","n","g">>,
  <<"s","t","r","i","n","g","-","l","e","n","g","t","h">>,
  <<"n","o","r","m","a","l","i","z","e","-","s","p","a","c","e">>, <<"t","r","a","n","s","l","a","t","e">>,
  <<"b","o","o","l","e","a","n">>, <<"n","o","t">>, <<"t","r","u","e">>, <<"f","a","l","s","e">>,
  <<"l","a","n","g">>, <<"n","u","m","b","e","r">>, <<"s","u","m">>, <<"f","l","o","o","r">>,
  <<"c","e","i","l","i","n","g">>, <<"r","o","u","n","d">> }

RECURSIVE Eval(_, _, _, _)
RECURSIVE EvalSteps(_, _, _, _, _, _)
RECURSIVE ApplyPreds(_, _, _, _, _)
RECURSIVE SumNums(_)

SumNums(ns) == IF ns = <<>> THEN Zero(1) ELSE Add(Head(ns), SumNums(Tail(ns)))

\* predicates p[j..] applied to the candidate sequence (proximity order); returns NS-like
\* record [ok |-> TRUE, seq] or [ok |-> FALSE, err]
ApplyPreds(d, env, seq, preds, j) ==
  IF j > Len(preds) THEN [ok |-> TRUE, seq |-> seq]
  ELSE LET vals == [i \in 1..Len(seq) |->
                      LET v == Eval(d, env, preds[j], [cur |-> {seq[i]}, pos |-> i, size |-> Len(seq)])
                      IN IF IsErr(v) THEN v
                         ELSE IF v.t = "num" THEN (IF IsUnk(v.v) THEN Err("unk") ELSE BoolV(NumEq(v.v, NInt(i))))
                         ELSE ToBoolV(d, v)]
       IN IF AnyErrSeq(vals) THEN [ok |-> FALSE, err |-> PickErrSeq(vals)]
          ELSE LET idx == SelectSeq([i \in 1..Len(seq) |-> i], LAMBDA i : vals[i].v)
               IN ApplyPreds(d, env, [k \in 1..Len(idx) |-> seq[idx[k]]], preds, j + 1)

\* one axis step from one context node
StepFrom(d, env, n, st) ==
  LET cand == AxisSeq(d, st.ax, n) IN
  \* the step is evaluated for context node n: its name test refers to the prefix, whether or not the axis holds a node
  \* to apply it to (a reference that is evaluated yields an error, C11); only a step that is reached with NO context
  \* node at all is left unconstrained (see EvalSteps)
  IF ~Bound(env, TestPrefix(st.test))
  THEN Err("unbound-prefix")
  ELSE LET tested == SelectSeq(cand, LAMBDA m : NodeTest(d, env, st.ax, st.test, m))
           r == ApplyPreds(d, env, tested, st.preds, 1)
       IN IF r.ok THEN NS(ToSet(r.seq)) ELSE r.err

EvalSteps(d, env, S, steps, i, ctx) ==
  IF i > Len(steps) THEN NS(S)
  ELSE LET st == steps[i] IN
    IF "fn" \in DOMAIN st THEN
      LET r == Eval(d, env, st.fn, [cur |-> S, pos |-> ctx.pos, size |-> ctx.size]) IN
      IF i = Len(steps) \/ IsErr(r) THEN r
      ELSE IF r.t = "ns" THEN EvalSteps(d, env, r.v, steps, i + 1, ctx) ELSE Err("illtyped")
    ELSE LET rs == {StepFrom(d, env, n, st) : n \in S} IN
      IF S = {} /\ ~Bound(env, TestPrefix(st.test)) THEN Err("illtyped")   \* never evaluated: unconstrained
      ELSE IF AnyErr(rs) THEN PickErr(rs)
      ELSE EvalSteps(d, env, UNION {r.v : r \in rs}, steps, i + 1, ctx)

\* first node of the context in document order, as a value
CtxNS(ctx) == NS(ctx.cur)

CallBuiltin(d, env, name, args, ctx) ==
  LET n == Len(args)
      A(i) == args[i]
      S1 == IF n >= 1 THEN ToStr(d, A(1)) ELSE ToStr(d, CtxNS(ctx))
      Bad == Err("illtyped")
      unkS(s) == IsUnkStr(s)
  IN
  CASE name = <<"l","a","s","t">> -> IF n = 0 THEN NumV(NInt(ctx.size)) ELSE Bad
    [] name = <<"p","o","s","i","t","i","o","n">> -> IF n = 0 THEN NumV(NInt(ctx.pos)) ELSE Bad
    [] name = <<"c","o","u","n","t">> ->
         IF n # 1 THEN Bad ELSE IF A(1).t # "ns" THEN Err("count-non-nodeset") ELSE NumV(NInt(Cardinality(A(1).v)))
    [] name = <<"l","o","c","a","l","-","n","a","m","e">> ->
         IF n > 1 THEN Bad ELSE LET s == IF n = 1 THEN A(1) ELSE CtxNS(ctx) IN
         IF s.t # "ns" THEN Bad ELSE IF s.v # {} /\ FirstAmbiguous(d, s.v) THEN Err("unk") ELSE StrV(IF s.v = {} THEN <<>> ELSE LocalNameOf(d, MinOf(s.v)))
    [] name = <<"n","a","m","e","s","p","a","c","e","-","u","r","i">> ->
         IF n > 1 THEN Bad ELSE LET s == IF n = 1 THEN A(1) ELSE CtxNS(ctx) IN
         IF s.t # "ns" THEN Bad ELSE IF s.v # {} /\ FirstAmbiguous(d, s.v) THEN Err("unk") ELSE StrV(IF s.v = {} THEN <<>> ELSE NamespaceUriOf(d, MinOf(s.v)))
    [] name = <<"n","a","m","e">> ->
         IF n > 1 THEN Bad ELSE LET s == IF n = 1 THEN A(1) ELSE CtxNS(ctx) IN
         IF s.t # "ns" THEN Bad ELSE IF s.v # {} /\ FirstAmbiguous(d, s.v) THEN Err("unk") ELSE StrV(IF s.v = {} THEN <<>> ELSE ExpandedName(d, MinOf(s.v)))
    [] name = <<"s","t","r","i","n","g">> ->
         IF n > 1 THEN Bad
         \* for a number beyond the digit-exact range the specification states the obligation instead of the spelling:
         \* decimal notation without exponent that reads back to the same double, integers without a point
         ELSE IF n = 1 /\ A(1).t = "num" /\ A(1).v.c \in {"pow2", "named"} THEN [t |-> "numstr", v |-> A(1).v]
         ELSE StrOrErr(S1)
    [] name = <<"c","o","n","c","a","t">> ->
         IF n < 2 THEN Bad ELSE StrOrErr(Flatten([i \in 1..n |-> ToStr(d, A(i))]))
    [] name = <<"s","t","a","r","t","s","-","w","i","t","h">> ->
         IF n # 2 THEN Bad ELSE LET a == ToStr(d, A(1)) b == ToStr(d, A(2)) IN
         IF unkS(a) \/ unkS(b) \/ ~ZSafe(a, b) THEN Err("unk") ELSE BoolV(StartsWithS(a, b))
    [] name = <<"c","o","n","t","a","i","n","s">> ->
         IF n # 2 THEN Bad ELSE LET a == ToStr(d, A(1)) b == ToStr(d, A(2)) IN
         IF unkS(a) \/ unkS(b) \/ ~ZSafe(a, b) THEN Err("unk") ELSE BoolV(ContainsS(a, b))
    [] name = <<"s","u","b","s","t","r","i","n","g","-","b","e","f","o","r","e">> ->
         IF n # 2 THEN Bad ELSE LET a == ToStr(d, A(1)) b == ToStr(d, A(2)) IN
         IF unkS(a) \/ unkS(b) \/ ~ZSafe(a, b) THEN Err("unk") ELSE StrV(SubstringBefore(a, b))
    [] name = <<"s","u","b","s","t","r","i","n","g","-","a","f","t","e","r">> ->
         IF n # 2 THEN Bad ELSE LET a == ToStr(d, A(1)) b == ToStr(d, A(2)) IN
         IF unkS(a) \/ unkS(b) \/ ~ZSafe(a, b) THEN Err("unk") ELSE StrV(SubstringAfter(a, b))
    [] name = <<"s","u","b","s","t","r","i","n","g">> ->
         IF n \notin {2, 3} THEN Bad ELSE
         LET a == ToStr(d, A(1)) p == ToNum(d, A(2)) l == IF n = 3 THEN ToNum(d, A(3)) ELSE Nan IN
         \* (the upper bound round(p) + round(l) must be determined as well)
         IF unkS(a) \/ HasWide(a) \/ IsUnk(p) \/ IsUnk(l) \/ IsUnk(Round(p)) \/ (n = 3 /\ IsUnk(Add(Round(p), Round(l)))) THEN Err("unk")
         ELSE StrV(Chs(Substring(a, p, n = 3, l)))
    [] name = <<"s","t","r","i","n","g","-","l","e","n","g","t","h">> ->
         IF n > 1 THEN Bad ELSE IF unkS(S1) THEN Err("unk") ELSE NumV(NInt(CharCount(S1)))
    [] name = <<"n","o","r","m","a","l","i","z","e","-","s","p","a","c","e">> ->
         IF n > 1 THEN Bad ELSE IF unkS(S1) THEN Err("unk") ELSE StrV(NormalizeSpace(S1))
    [] name = <<"t","r","a","n","s","l","a","t","e">> ->
         IF n # 3 THEN Bad ELSE LET a == ToStr(d, A(1)) b == ToStr(d, A(2)) c == ToStr(d, A(3)) IN
         IF unkS(a) \/ unkS(b) \/ unkS(c) \/ ~ZSafe(a, b) \/ HasWide(c) THEN Err("unk") ELSE StrV(Translate(a, b, c))
    [] name = <<"b","o","o","l","e","a","n">> -> IF n # 1 THEN Bad ELSE ToBoolV(d, A(1))
    [] name = <<"n","o","t">> ->
         IF n # 1 THEN Bad ELSE LET b == ToBoolV(d, A(1)) IN IF IsErr(b) THEN b ELSE BoolV(~b.v)
    [] name = <<"t","r","u","e">> -> IF n = 0 THEN BoolV(TRUE) ELSE Bad
    [] name = <<"f","a","l","s","e">> -> IF n = 0 THEN BoolV(FALSE) ELSE Bad
    [] name = <<"l","a","n","g">> ->
         IF n # 1 THEN Bad ELSE LET L == ToStr(d, A(1)) IN
         IF unkS(L) THEN Err("unk") ELSE BoolV(ctx.cur # {} /\ LangOf(d, MinOf(ctx.cur), L))
    [] name = <<"n","u","m","b","e","r">> ->
         IF n > 1 THEN Bad ELSE NumOrErr(IF n = 1 THEN ToNum(d, A(1)) ELSE ToNum(d, CtxNS(ctx)))
    [] name = <<"s","u","m">> ->
         IF n # 1 \/ A(1).t # "ns" THEN Bad
         ELSE LET ids == Asc(A(1).v) IN NumOrErr(SumNums([i \in 1..Len(ids) |-> StrToNum(StringValue(d, ids[i]))]))
    [] name = <<"f","l","o","o","r">> -> IF n # 1 THEN Bad ELSE NumOrErr(Floor(ToNum(d, A(1))))
    [] name = <<"c","e","i","l","i","n","g">> -> IF n # 1 THEN Bad ELSE NumOrErr(Ceil(ToNum(d, A(1))))
    [] name = <<"r","o","u","n","d">> ->
         IF n # 1 THEN Bad
         ELSE NumOrErr(IF "round-neg-tie-down" \in Fx(env) THEN RoundNegTieDown(ToNum(d, A(1))) ELSE Round(ToNum(d, A(1))))

\* user functions registered through WithFunction*: the harness registers a real Go function of
\* the same kind; each is a deterministic function of its arguments and of the Context it is given
CallUser(d, f, args, ctx) ==
  CASE f.kind = "arg" -> IF f.i <= Len(args) THEN args[f.i] ELSE Err("illtyped")      \* returns its i-th argument
    [] f.kind = "const" -> AsValue(f.val)                                             \* returns a fixed value
    [] f.kind = "ctxnode" -> NS(ctx.cur)                                              \* returns Context.Result()
    [] f.kind = "ctxpos" -> NumV(NInt(ctx.pos))                                        \* returns ContextPosition()+1
    [] f.kind = "nargs" -> NumV(NInt(Len(args)))                                       \* returns the number of arguments

\* [op |-> "numtext", s |-> chars]: a Number literal given by its spelling (any length).  Its value is the double nearest to
\* the numeral, which the specification determines only for short spellings; but whatever it is, it is the value the SAME
\* characters convert to as a string (section 4.4: number() of a string reads it as a Number) - SameNumeral below.
SameNumeral(x, y) == /\ x.op = "call" /\ x.pre = "" /\ x.lo = <<"n","u","m","b","e","r">> /\ Len(x.args) = 1 /\ x.args[1].op = "lit"
                     /\ y.op = "numtext" /\ y.s = x.args[1].s /\ IsUNumeral(y.s)
Eval(d, env, e, ctx) ==
  CASE e.op = "num" -> NumV(e.v)
    [] e.op = "numtext" -> NumOrErr(StrToNum(e.s))
    [] e.op \in {"eq", "ne"} /\ (SameNumeral(e.l, e.r) \/ SameNumeral(e.r, e.l)) -> BoolV(e.op = "eq")
    [] e.op = "lit" -> StrV(e.s)
    [] e.op = "var" ->
         IF ~Bound(env, e.pre) THEN Err("unbound-prefix")
         ELSE LET is == FindVar(env, Uri(env, e.pre), e.lo) IN
              IF is = {} THEN Err("unbound-variable") ELSE AsValue(env.vars[MinOf(is)].val)
    [] e.op = "call" ->
         LET argv == [i \in 1..Len(e.args) |-> Eval(d, env, e.args[i], ctx)]
         IN IF ~Bound(env, e.pre) THEN Err("unbound-prefix")
            ELSE IF AnyErrSeq(argv) THEN PickErrSeq(argv)
            ELSE LET fs == FindFunc(env, Uri(env, e.pre), e.lo) IN
                 IF fs # {} THEN CallUser(d, env.funcs[MinOf(fs)], argv, ctx)
                 ELSE IF e.pre = "" /\ e.lo \in BuiltinNames THEN CallBuiltin(d, env, e.lo, argv, ctx)
                 ELSE Err("unbound-function")
    [] e.op = "path" -> EvalSteps(d, env, IF e.abs THEN {1} ELSE ctx.cur, e.steps, 1, ctx)
    [] e.op = "filter" ->
         LET p == Eval(d, env, e.prim, ctx) IN
         IF IsErr(p) THEN p
         ELSE IF e.preds = <<>> /\ e.steps = <<>> THEN p
         ELSE IF p.t # "ns" THEN Err("illtyped")
         ELSE LET r == ApplyPreds(d, env, Asc(p.v), e.preds, 1) IN
              IF ~r.ok THEN r.err ELSE EvalSteps(d, env, ToSet(r.seq), e.steps, 1, ctx)
    [] e.op = "union" ->
         LET l == Eval(d, env, e.l, ctx) r == Eval(d, env, e.r, ctx) IN
         IF IsErr(l) THEN l ELSE IF IsErr(r) THEN r
         ELSE IF l.t # "ns" \/ r.t # "ns" THEN Err("illtyped") ELSE NS(l.v \cup r.v)
    [] e.op \in {"or", "and"} ->
         LET l == Eval(d, env, e.l, ctx) r == Eval(d, env, e.r, ctx) IN
         IF IsErr(l) THEN l ELSE IF IsErr(r) THEN r
         ELSE LET a == ToBoolV(d, l) b == ToBoolV(d, r) IN
              IF IsErr(a) THEN a ELSE IF IsErr(b) THEN b
              ELSE BoolV(IF e.op = "or" THEN a.v \/ b.v ELSE a.v /\ b.v)
    [] e.op \in {"eq", "ne", "lt", "le", "gt", "ge"} ->
         LET l == Eval(d, env, e.l, ctx) r == Eval(d, env, e.r, ctx) IN
         IF IsErr(l) THEN l ELSE IF IsErr(r) THEN r ELSE Compare(d, e.op, l, r)
    [] e.op \in {"add", "sub", "mul", "div", "mod"} ->
         LET l == Eval(d, env, e.l, ctx) r == Eval(d, env, e.r, ctx) IN
         IF IsErr(l) THEN l ELSE IF IsErr(r) THEN r
         ELSE LET a == ToNum(d, l) b == ToNum(d, r) IN
              NumOrErr(CASE e.op = "add" -> Add(a, b) [] e.op = "sub" -> Sub(a, b) [] e.op = "mul" -> Mul(a, b)
                         [] e.op = "div" -> Div(a, b) [] e.op = "mod" -> Mod(a, b))
    [] e.op = "neg" ->
         LET a == Eval(d, env, e.a, ctx) IN IF IsErr(a) THEN a ELSE NumOrErr(Neg(ToNum(d, a)))

(***************************************************************************)
(* C03: what a returned node sequence must look like                       *)
(***************************************************************************)
RECURSIVE UsesReverseAxis(_)
StepsReverse(steps) == \E i \in 1..Len(steps) :
   IF "fn" \in DOMAIN steps[i] THEN UsesReverseAxis(steps[i].fn)
   ELSE steps[i].ax \in ReverseAxes \/ \E j \in 1..Len(steps[i].preds) : UsesReverseAxis(steps[i].preds[j])
UsesReverseAxis(e) ==
  CASE e.op \in {"num", "lit", "var", "numtext"} -> FALSE
    [] e.op = "call" -> \E i \in 1..Len(e.args) : UsesReverseAxis(e.args[i])
    [] e.op = "path" -> StepsReverse(e.steps)
    [] e.op = "filter" -> UsesReverseAxis(e.prim) \/ StepsReverse(e.steps) \/ \E j \in 1..Len(e.preds) : UsesReverseAxis(e.preds[j])
    [] e.op = "neg" -> UsesReverseAxis(e.a)
    [] OTHER -> UsesReverseAxis(e.l) \/ UsesReverseAxis(e.r)

\* does the expression refer to a variable (anywhere)?
RECURSIVE RefsVar(_)
StepsRefVar(steps) == \E i \in 1..Len(steps) :
   IF "fn" \in DOMAIN steps[i] THEN RefsVar(steps[i].fn) ELSE \E j \in 1..Len(steps[i].preds) : RefsVar(steps[i].preds[j])
RefsVar(e) ==
  CASE e.op \in {"num", "lit", "numtext"} -> FALSE
    [] e.op = "var" -> TRUE
    [] e.op = "call" -> \E i \in 1..Len(e.args) : RefsVar(e.args[i])
    [] e.op = "path" -> StepsRefVar(e.steps)
    [] e.op = "filter" -> RefsVar(e.prim) \/ StepsRefVar(e.steps) \/ \E j \in 1..Len(e.preds) : RefsVar(e.preds[j])
    [] e.op = "neg" -> RefsVar(e.a)
    [] OTHER -> RefsVar(e.l) \/ RefsVar(e.r)
\* a variable evaluates to exactly the bound value (C11): when the caller binds a node-set that is not in ascending
\* document order, an expression over variables may hand that order on - it then only has to be monotone
MayHandOnOrder(e, env) == RefsVar(e) /\ \E i \in 1..Len(env.vars) :
   LET w == env.vars[i].val IN w.t = "ns" /\ \E k \in 1..(Len(w.v) - 1) : w.v[k] > w.v[k + 1]

\* does the expression call the function named nm (anywhere)?
RECURSIVE CallsFn(_, _)
StepsCall(steps, nm) == \E i \in 1..Len(steps) :
   IF "fn" \in DOMAIN steps[i] THEN CallsFn(steps[i].fn, nm) ELSE \E j \in 1..Len(steps[i].preds) : CallsFn(steps[i].preds[j], nm)
CallsFn(e, nm) ==
  CASE e.op \in {"num", "lit", "var", "numtext"} -> FALSE
    [] e.op = "call" -> (e.pre = "" /\ e.lo = nm) \/ \E i \in 1..Len(e.args) : CallsFn(e.args[i], nm)
    [] e.op = "path" -> StepsCall(e.steps, nm)
    [] e.op = "filter" -> CallsFn(e.prim, nm) \/ StepsCall(e.steps, nm) \/ \E j \in 1..Len(e.preds) : CallsFn(e.preds[j], nm)
    [] e.op = "neg" -> CallsFn(e.a, nm)
    [] OTHER -> CallsFn(e.l, nm) \/ CallsFn(e.r, nm)
\* can an open switch change the value of e?
Affected(e, fx) == ("round-neg-tie-down" \in fx /\ CallsFn(e, <<"r","o","u","n","d">>))

IsAsc(seq) == \A i \in 1..(Len(seq) - 1) : seq[i] < seq[i + 1]
IsDsc(seq) == \A i \in 1..(Len(seq) - 1) : seq[i] > seq[i + 1]
\* seq: returned node ids in returned order; want: the set the semantics defines
ResultOrderOK(e, seq, want) ==
  /\ ToSet(seq) = want
  /\ Len(seq) = Cardinality(want)                  \* duplicate-free
  /\ IF e.op = "union" \/ ~UsesReverseAxis(e) THEN IsAsc(seq) ELSE (IsAsc(seq) \/ IsDsc(seq))
=============================================================================
