CONSTANTS
  OpenFx = {}
  MaxLen = 3
  EmitOn = TRUE
  Alphabet = "core"
INIT Init
NEXT Next
INVARIANTS Emit
