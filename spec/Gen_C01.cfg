CONSTANTS
  OpenFx = {}
  ElemNames <- C_ElemNames
  AttrNames <- C_AttrNames
  AttrValues <- C_AttrValues
  NsDecls <- C_NsDecls
  Texts <- C_Texts
  Comments <- C_Comments
  PIs <- C_PIs
  MaxNodes = 4
  MaxDepth = 4
  MaxEvents = 12
  SurplusEnd = FALSE
  EmitFam = "C01"
  EmitOn = TRUE
INIT Init
NEXT Next
VIEW View
INVARIANTS Emit
