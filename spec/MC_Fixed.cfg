CONSTANTS
  OpenFx = {}
INIT Init
NEXT Next
INVARIANTS TwoStepIsUnion DeepLaw Emit
