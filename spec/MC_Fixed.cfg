CONSTANTS
  OpenFx = {}
INIT Init
NEXT Next
INVARIANTS TwoStepIsUnion Emit
