------------------------------ MODULE StoreFn ------------------------------
(* The event consumer store.CreateInMemory as a pure step function on       *)
(* [doc, open, phase] (no variables), shared by the Store machine and by    *)
(* the trace specification Trace_Store.  Events:                            *)
(*   [k |-> "elem", sp, lo]   [k |-> "end"]                                 *)
(*   [k |-> "ns", lo (prefix), v (URI)]   [k |-> "attr", sp, lo, v]         *)
(*   [k |-> "text", v]  [k |-> "comment", v]  [k |-> "pi", lo, v]           *)
(***************************************************************************)
EXTENDS XDM, TLC

RootNode == [k |-> "root", p |-> 0, sp |-> <<>>, lo |-> <<>>, v |-> <<>>]
Node(k, p, sp, lo, v) == [k |-> k, p |-> p, sp |-> sp, lo |-> lo, v |-> v]

(***************************************************************************)
(* The consumer as a pure step function on [doc, open, phase]; the actions  *)
(* below and the trace specification (Trace_Store) both use it.             *)
(***************************************************************************)
\* (the root may receive namespace nodes, too, before anything else: "it will either be added to the root node, or the last
\*  node.Element that was not terminated" - a fragment parser seeding in-scope bindings; the top-level elements inherit them)
St0 == [doc |-> <<RootNode>>, open |-> <<1>>, phase |-> "ns"]
TopOf(st) == st.open[Len(st.open)]

\* the tree after an element start: the element, then one namespace node per binding in
\* scope at its parent (each element owns its own namespace nodes)
AfterStart(dd, top, sp, lo) ==
  LET e == Len(dd) + 1
      inh == Asc(NsOf(dd, top))
  IN dd \o <<Node("elem", top, sp, lo, <<>>)>> \o [i \in 1..Len(inh) |-> Node("ns", e, <<>>, dd[inh[i]].lo, dd[inh[i]].v)]
\* the tree after a namespace declaration on element e: overrides an inherited binding of
\* the same prefix in place, otherwise adds a node
\* An empty prefix with an empty URI (xmlns="") undeclares the default namespace: the element has
\* no namespace node for it.  (Only namespace nodes of e follow e at this point, so removing one
\* does not disturb any parent reference.)
AfterNs(dd, e, pre, uri) ==
  LET same == {m \in NsOf(dd, e) : dd[m].lo = pre}
  IN IF pre = <<>> /\ uri = <<>> THEN
       (IF same = {} THEN dd ELSE LET m == CHOOSE x \in same : TRUE IN SubSeq(dd, 1, m - 1) \o SubSeq(dd, m + 1, Len(dd)))
     ELSE IF same # {} THEN [dd EXCEPT ![CHOOSE m \in same : TRUE].v = uri]
     ELSE Append(dd, Node("ns", e, <<>>, pre, uri))

\* the Parser contract (parser/parser.go): which event may come next
Accepts(st, ev) ==
  CASE ev.k = "ns" -> st.phase = "ns"                                  \* namespaces before attributes (on elements; on the root before anything else)
    [] ev.k = "attr" -> Len(st.open) > 1 /\ st.phase \in {"ns", "attr"} \* attributes before children
    [] OTHER -> TRUE                                                     \* children, End (surplus End at the root is tolerated)

Consume(st, ev) ==
  CASE ev.k = "elem" -> [doc |-> AfterStart(st.doc, TopOf(st), ev.sp, ev.lo), open |-> Append(st.open, Len(st.doc) + 1), phase |-> "ns"]
    [] ev.k = "ns" -> [st EXCEPT !.doc = AfterNs(st.doc, TopOf(st), ev.lo, ev.v)]
    [] ev.k = "attr" -> [st EXCEPT !.doc = Append(st.doc, Node("attr", TopOf(st), ev.sp, ev.lo, ev.v)), !.phase = "attr"]
    [] ev.k = "text" -> [st EXCEPT !.doc = Append(st.doc, Node("text", TopOf(st), <<>>, <<>>, ev.v)), !.phase = "child"]
    [] ev.k = "comment" -> [st EXCEPT !.doc = Append(st.doc, Node("comment", TopOf(st), <<>>, <<>>, ev.v)), !.phase = "child"]
    [] ev.k = "pi" -> [st EXCEPT !.doc = Append(st.doc, Node("pi", TopOf(st), <<>>, ev.lo, ev.v)), !.phase = "child"]
    [] ev.k = "end" -> [st EXCEPT !.open = IF Len(st.open) > 1 THEN SubSeq(st.open, 1, Len(st.open) - 1) ELSE st.open, !.phase = "child"]

RECURSIVE RunFrom(_, _, _)
RunFrom(st, es, i) == IF i > Len(es) THEN st ELSE RunFrom(Consume(st, es[i]), es, i + 1)
\* the tree a whole event stream builds
TreeOf(es) == RunFrom(St0, es, 1).doc
RECURSIVE ConformsFrom(_, _, _)
ConformsFrom(st, es, i) == i > Len(es) \/ (Accepts(st, es[i]) /\ ConformsFrom(Consume(st, es[i]), es, i + 1))
Conforms(es) == ConformsFrom(St0, es, 1)

=============================================================================
