CONSTANTS
  EmitOn = TRUE
INIT Init
NEXT Next
INVARIANTS Laws Emit
