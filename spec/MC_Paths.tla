------------------------------ MODULE MC_Paths -----------------------------
(* C02 (predicates), C03 (node-set results), C18 (sub-queries compose):     *)
(* documents from the Store machine over a small pool chosen so that        *)
(* several parents with different numbers of same-named children occur;     *)
(* expression pools per family.  Design-level invariants are the            *)
(* metamorphic laws the properties state, evaluated with Eval on every      *)
(* reachable document; the Emit invariant writes the replay cases.          *)
(***************************************************************************)
EXTENDS Store, XGen

CONSTANTS Family,   \* "none" | "C02" | "C03" | "C18" : which cases the Emit invariant writes
          Scale     \* "small" (quick tier) | "full": size of the expression pools

C_ElemNames == {Nm(<<>>, <<"a">>), Nm(<<>>, <<"b">>)}
C_AttrNames == {Nm(<<>>, <<"x">>)}
C_AttrValues == {<<"1">>}
C_NsDecls == {}
C_Texts == {<<"1">>}
C_Comments == {}
C_PIs == {}
View == <<doc, open, phase>>

Env == [ns |-> <<>>, vars |-> <<>>, funcs |-> <<>>]
N(k) == IntE(k)
PosE == Call(<<"p","o","s","i","t","i","o","n">>, <<>>)
LastE == Call(<<"l","a","s","t">>, <<>>)
CountE(e) == Call(<<"c","o","u","n","t">>, <<e>>)
ChildB == Rel(<<Step("child", T_name("", <<"b">>))>>)
AttrX == Rel(<<Step("attribute", T_name("", <<"x">>))>>)

\* predicate pool (section 2.4): numbers, last(), comparisons on position(), booleans,
\* node-sets, strings, nested predicates
Preds == << N(1), N(2), N(0), NumE(Rat(3, 2)), Bin("div", N(0), N(0)), LastE, Bin("sub", LastE, N(1)),
            Bin("eq", PosE, LastE), Bin("le", PosE, N(2)), Bin("eq", Bin("mod", PosE, N(2)), N(1)), Bin("gt", PosE, N(1)),
            ChildB, AttrX, Bin("eq", Rel(<<Self>>), Lit(<<"1">>)), Lit(<<"s">>), Lit(<<>>),
            Call(<<"t","r","u","e">>, <<>>), Call(<<"f","a","l","s","e">>, <<>>),
            Rel(<<StepP("child", T_name("", <<"b">>), <<N(1)>>)>>), Bin("eq", CountE(ChildB), N(2)),
            Bin("eq", CountE(Rel(<<Step("preceding-sibling", T_any)>>)), N(1)),
            \* numeric predicates whose value depends on the context node
            PosE, Bin("add", CountE(Rel(<<Step("preceding-sibling", T_any)>>)), N(1)), Bin("sub", N(3), PosE),
            Call(<<"n","u","m","b","e","r">>, <<AttrX>>), Bin("sub", Bin("add", LastE, N(1)), PosE),
            \* position() / last() inside the arguments of another call keep the predicate's context
            Call(<<"n","o","t">>, <<Bin("eq", PosE, LastE)>>), Call(<<"b","o","o","l","e","a","n">>, <<Bin("mod", PosE, N(2))>>), Call(<<"r","o","u","n","d">>, <<Bin("div", LastE, N(2))>>),
            \* a numeric predicate without any number in its text: string-length(@x) is 1 where @x = "1" (and 0 elsewhere)
            Call(<<"s","t","r","i","n","g","-","l","e","n","g","t","h">>, <<AttrX>>),
            \* a predicate inside the predicate has its own context (node, position, size) and gives the outer one back afterwards:
            \* [b[@x] and @x] evaluates the second @x from the outer node; [b[last()]] counts the b children, not the outer list
            Bin("and", Rel(<<StepP("child", T_name("", <<"b">>), <<AttrX>>)>>), AttrX),
            Rel(<<StepP("child", T_name("", <<"b">>), <<LastE>>)>>),
            Rel(<<StepP("child", T_any, <<Bin("eq", PosE, LastE)>>)>>),
            Call(<<"n","o","t">>, <<Rel(<<StepP("child", T_any, <<Bin("eq", PosE, N(2))>>)>>)>>) >>
PredAxes == IF Scale = "small"
            THEN <<"child", "descendant", "following-sibling", "ancestor", "preceding-sibling", "preceding", "attribute">>
            ELSE <<"child", "descendant", "descendant-or-self", "following-sibling", "following",
                   "ancestor", "ancestor-or-self", "preceding-sibling", "preceding", "parent", "self", "attribute">>
StepTests == IF Scale = "small" THEN <<T_any, T_name("", <<"b">>)>> ELSE <<T_any, T_name("", <<"b">>), T_node>>

\* [n] == [position() = n], [last()] == [position() = last()]
EqPos(k) == Bin("eq", PosE, k)

Seq2Set(s) == {s[i] : i \in 1..Len(s)}
OnePred == {<<ax, t, <<p>>>> : ax \in Seq2Set(PredAxes), t \in Seq2Set(StepTests), p \in Seq2Set(Preds)}
TwoPredPool == <<N(1), N(2), LastE, Bin("gt", PosE, N(1)), ChildB, Bin("eq", Bin("mod", PosE, N(2)), N(1))>>
TwoPreds == {<<ax, T_any, <<p, q>>>> : ax \in IF Scale = "small" THEN {"child", "ancestor", "preceding-sibling"}
                                             ELSE {"child", "descendant", "following-sibling", "ancestor", "preceding-sibling", "preceding"},
                                       p \in Seq2Set(TwoPredPool), q \in Seq2Set(TwoPredPool)}
\* relative one-step forms (evaluated from every node) and the same step after //* (many context nodes)
RelForms == {Rel(<<StepP(x[1], x[2], x[3])>>) : x \in OnePred \cup TwoPreds}
AbsForms == {Abs(<<DoS, Step("child", T_any), StepP(x[1], x[2], x[3])>>) : x \in OnePred \cup TwoPreds}
\* filter expressions: predicates number in document order; continuations are evaluated
AllB == Abs(<<DoS, Step("child", T_name("", <<"b">>))>>)
AncAll == Rel(<<Step("ancestor-or-self", T_node)>>)
PrecAll == Rel(<<Step("preceding", T_any)>>)
FilterForms ==
   {Filter(pr, <<p>>, st) : pr \in {AllB, AncAll, PrecAll}, p \in Seq2Set(Preds),
                            st \in {<<>>, <<Step("parent", T_node)>>, <<DoS, Step("child", T_any)>>, <<StepP("child", T_any, <<N(1)>>)>>}}
   \cup {Filter(pr, <<p, q>>, <<>>) : pr \in {AllB, AncAll}, p \in Seq2Set(TwoPredPool), q \in Seq2Set(TwoPredPool)}
   \cup {Filter(Bin("union", AllB, AncAll), <<p>>, <<Step("child", T_any)>>) : p \in {N(1), N(2), LastE}}
   \* a filter expression WITHOUT predicate hands its operand on as it is (a reverse axis: nearest first) - the continuation is still the
   \* union over all its nodes: (ancestor-or-self::node())//*, (preceding::*)/descendant::*
   \cup {Filter(pr, <<>>, st) : pr \in {AncAll, PrecAll}, st \in {<<DoS, Step("child", T_any)>>, <<Step("descendant", T_any)>>, <<DoS, StepP("child", T_any, <<N(1)>>)>>}}

\* the classic: //b[1] is /descendant-or-self::node()/child::b[1] (first b of every parent), not (//b)[1]
Classic == { Abs(<<DoS, StepP("child", T_name("", <<"b">>), <<p>>)>>) : p \in {N(1), N(2), LastE, Bin("eq", PosE, LastE)} }
           \cup { Abs(<<StepP("descendant", T_name("", <<"b">>), <<p>>)>>) : p \in {N(1), N(2), LastE} }
           \cup { Abs(<<DoS, StepP("child", T_any, <<N(1)>>), StepP("child", T_any, <<LastE>>)>>),
                  Abs(<<DoS, StepP("child", T_name("", <<"b">>), <<Rel(<<StepP("preceding-sibling", T_any, <<N(1)>>)>>)>>)>>),
                  Abs(<<DoS, StepP("child", T_any, <<Bin("eq", CountE(Rel(<<StepP("following-sibling", T_any, <<LastE>>)>>)), N(1))>>)>>),
                  Abs(<<DoS, StepP("attribute", T_any, <<N(1)>>)>>), Abs(<<DoS, StepP("child", T_text, <<N(1)>>)>>),
                  \* a position no list can have: 2^64 selects nothing (and is no error)
                  Abs(<<DoS, StepP("child", T_any, <<NumE(Pow2(1, 64))>>)>>), Filter(AllB, <<NumE(Pow2(1, 64))>>, <<>>),
                  \* a later predicate still applies after a literal position: *[1][@x], *[2][b]
                  Abs(<<DoS, StepP("child", T_any, <<N(1), AttrX>>)>>), Abs(<<DoS, StepP("child", T_any, <<N(2), ChildB>>)>>) }
\* a//b[p]: the step after a mid-path "//" numbers per parent, too (it is NOT a/descendant::b[p])
MidSlash == { Abs(<<Step("child", T_any), DoS, StepP("child", t, <<p>>)>>) : t \in {T_any, T_name("", <<"b">>)}, p \in {N(1), N(2), LastE, Bin("eq", PosE, LastE), Bin("gt", PosE, N(1))} }
            \cup { Rel(<<Self, DoS, StepP("child", T_any, <<p>>)>>) : p \in {N(1), LastE} }
            \cup { Rel(<<Step("child", T_any), DoS, StepP("child", T_any, <<N(1)>>), StepP("child", T_any, <<LastE>>)>>),
                   Filter(AllB, <<N(1)>>, <<Step("parent", T_node), DoS, StepP("child", T_any, <<N(1)>>)>>) }
PoolC02 == SetToSeq(RelForms \cup FilterForms \cup Classic \cup MidSlash)
PoolC02Abs == SetToSeq(AbsForms)

(***************************************************************************)
(* C02 design level: the metamorphic identities of the property on Eval    *)
(***************************************************************************)
EvalAt(n, e) == Eval(doc, Env, e, Ctx(n))
BaseSteps == {<<ax, t>> : ax \in Seq2Set(PredAxes), t \in Seq2Set(StepTests)}
NumericIsPositionEq == Complete =>
  \A n \in Ids(doc), b \in BaseSteps, k \in {N(0), N(1), N(2), N(3), NumE(Rat(3, 2)), Bin("div", N(0), N(0)), LastE, Bin("sub", LastE, N(1))} :
     EvalAt(n, Rel(<<StepP(b[1], b[2], <<k>>)>>)) = EvalAt(n, Rel(<<StepP(b[1], b[2], <<EqPos(k)>>)>>))
\* count(P[position() <= k]) = min(k, number of candidates) for a single context node
PrefixCount == Complete =>
  \A n \in Ids(doc), b \in BaseSteps, k \in 0..3 :
     LET all == EvalAt(n, Rel(<<Step(b[1], b[2])>>)).v
         sel == EvalAt(n, Rel(<<StepP(b[1], b[2], <<Bin("le", PosE, N(k))>>)>>)).v
     IN Cardinality(sel) = (IF Cardinality(all) < k THEN Cardinality(all) ELSE k) /\ sel \subseteq all
\* [1] selects the nearest node along the axis: smallest id for forward, greatest for reverse axes
FirstIsNearest == Complete =>
  \A n \in Ids(doc), b \in BaseSteps :
     LET all == EvalAt(n, Rel(<<Step(b[1], b[2])>>)).v
         one == EvalAt(n, Rel(<<StepP(b[1], b[2], <<N(1)>>)>>)).v
     IN IF all = {} THEN one = {}
        ELSE one = {IF b[1] \in ReverseAxes THEN CHOOSE x \in all : \A y \in all : y <= x ELSE MinOf(all)}
\* successive predicates renumber: P[position() > 1][1] is the second candidate
Renumber == Complete =>
  \A n \in Ids(doc), b \in BaseSteps :
     EvalAt(n, Rel(<<StepP(b[1], b[2], <<Bin("gt", PosE, N(1)), N(1)>>)>>)) = EvalAt(n, Rel(<<StepP(b[1], b[2], <<N(2)>>)>>))
\* per-context-node evaluation: //*/AX::T[p] is the union over the context nodes
PerContextNode == Complete =>
  \A b \in BaseSteps, p \in {N(1), LastE, Bin("eq", Bin("mod", PosE, N(2)), N(1))} :
     EvalAt(1, Abs(<<DoS, Step("child", T_any), StepP(b[1], b[2], <<p>>)>>)).v
       = UNION {EvalAt(m, Rel(<<StepP(b[1], b[2], <<p>>)>>)).v : m \in EvalAt(1, Abs(<<DoS, Step("child", T_any)>>)).v}
\* a filter expression numbers in document order even when its value came from a reverse axis
FilterDocOrder == Complete =>
  \A n \in Ids(doc) : LET all == EvalAt(n, AncAll).v IN
     EvalAt(n, Filter(AncAll, <<N(1)>>, <<>>)).v = (IF all = {} THEN {} ELSE {MinOf(all)})

(***************************************************************************)
(* C03: union laws on the specification and the union / ordering family    *)
(***************************************************************************)
Operands == << AllB, AncAll, PrecAll, Abs(<<DoS, Step("child", T_any), Step("parent", T_node)>>),
               Abs(<<DoS, Step("attribute", T_any)>>), Rel(<<Step("following", T_node)>>),
               Rel(<<Step("preceding-sibling", T_any), Step("child", T_any)>>),
               Rel(<<Step("ancestor", T_any), Step("attribute", T_any)>>), Rel(<<Step("descendant-or-self", T_node)>>),
               Rel(<<Step("preceding", T_node), Step("following-sibling", T_node)>>), Abs(<<>>), Rel(<<Self>>) >>
OpSet == Seq2Set(Operands)
U(a, b) == Bin("union", a, b)
UnionLaws == Complete =>
  \A n \in Ids(doc), a \in OpSet, b \in OpSet :
    LET A == EvalAt(n, a).v  B == EvalAt(n, b).v IN
    /\ EvalAt(n, U(a, b)) = EvalAt(n, U(b, a))
    /\ EvalAt(n, U(a, a)) = EvalAt(n, a)
    /\ EvalAt(n, CountE(U(a, b))).v = NInt(Cardinality(A) + Cardinality(B) - Cardinality(A \cap B))
    /\ \A c \in {AllB, PrecAll, Rel(<<Self>>)} : EvalAt(n, U(U(a, b), c)) = EvalAt(n, U(a, U(b, c)))
\* predicate-bearing steps taken from many (nested) context nodes: the merged result must be ordered
MultiCtx == { Abs(<<DoS, StepP("child", t, <<p>>)>>) : t \in {T_any, T_name("", <<"b">>), T_node},
                                                      p \in {Call(<<"t","r","u","e">>, <<>>), LastE, N(1), AttrX, Bin("gt", PosE, N(0))} }
            \cup { Rel(<<Step("descendant-or-self", T_any), StepP(ax, T_any, <<p>>)>>) : ax \in {"child", "following-sibling", "preceding-sibling", "ancestor", "attribute", "parent"},
                                                      p \in {Call(<<"t","r","u","e">>, <<>>), LastE, N(1)} }
            \cup { Rel(<<Step("ancestor-or-self", T_node), StepP(ax, T_node, <<p>>)>>) : ax \in {"child", "descendant", "following-sibling"}, p \in {Call(<<"t","r","u","e">>, <<>>), N(1)} }
PoolC03 == SetToSeq(MultiCtx \cup OpSet \cup {U(a, b) : a \in OpSet, b \in OpSet}
                    \cup {U(U(a, b), c) : a \in OpSet, b \in {AncAll, PrecAll}, c \in {AllB, Rel(<<Self>>)}}
                    \cup {U(a, U(b, c)) : a \in OpSet, b \in {AncAll, PrecAll}, c \in {AllB, Rel(<<Self>>)}}
                    \cup {CountE(U(a, b)) : a \in OpSet, b \in OpSet}
                    \cup {Filter(U(a, b), <<>>, <<Step("child", T_node)>>) : a \in OpSet, b \in {AncAll, PrecAll}})

(***************************************************************************)
(* C18: sub-queries compose like steps                                     *)
(***************************************************************************)
PathPrefixes == << Abs(<<DoS, Step("child", T_any), Step("ancestor", T_any)>>),             \* a prefix that ends in a reverse axis
               Abs(<<DoS, Step("child", T_any), Step("preceding-sibling", T_node)>>), Abs(<<DoS, Step("namespace", T_any)>>),
               Abs(<<DoS, Step("child", T_any)>>), Abs(<<DoS, Step("child", T_name("", <<"b">>))>>), Abs(<<DoS, Step("attribute", T_any)>>),
               Abs(<<DoS, Step("child", T_text)>>), Abs(<<Step("child", T_any)>>),
               Abs(<<DoS>>) >>                                                              \* every node, the root first
PathSuffixes == << <<Step("self", T_any)>>, <<Step("self", T_name("", <<"x">>))>>, <<Step("ancestor-or-self", T_any)>>, <<Step("descendant-or-self", T_any)>>,
               <<Step("parent", T_node), Step("self", T_name("", <<"a">>))>>, <<StepP("self", T_node, <<Rel(<<Step("self", T_any)>>)>>)>>,
               <<Step("parent", T_node)>>, <<Step("ancestor", T_any)>>, <<Step("following-sibling", T_any)>>,
               <<Step("preceding", T_node)>>, <<Step("child", T_any), Step("child", T_any)>>, <<Self>>,
               <<StepP("preceding-sibling", T_any, <<N(1)>>)>>, <<Step("parent", T_node), Step("attribute", T_any)>>,
               <<StepP("following", T_any, <<LastE>>)>>, <<Step("descendant-or-self", T_node), Step("child", T_text)>>,
               \* predicated steps whose numbering must restart for every node of the prefix
               <<StepP("child", T_any, <<Call(<<"s","t","r","i","n","g","-","l","e","n","g","t","h">>, <<AttrX>>)>>)>>,
               <<StepP("ancestor-or-self", T_any, <<N(1)>>)>>, <<StepP("ancestor-or-self", T_any, <<AttrX, N(1)>>)>>, <<StepP("ancestor", T_any, <<LastE>>)>> >>
Compose == Complete =>
  \A p \in Seq2Set(PathPrefixes), r \in Seq2Set(PathSuffixes) :
     EvalAt(1, Abs(p.steps \o r)).v = UNION {EvalAt(m, Rel(r)).v : m \in EvalAt(1, p).v}
CtxFns == << <<"s","t","r","i","n","g">>, <<"n","u","m","b","e","r">>, <<"s","t","r","i","n","g","-","l","e","n","g","t","h">>,
             <<"n","o","r","m","a","l","i","z","e","-","s","p","a","c","e">>, <<"n","a","m","e">>, <<"l","o","c","a","l","-","n","a","m","e">>,
             <<"n","a","m","e","s","p","a","c","e","-","u","r","i">> >>
FnStepLaw == Complete =>
  \A p \in Seq2Set(PathPrefixes), f \in Seq2Set(CtxFns) :
     EvalAt(1, Abs(p.steps \o <<FnStep(Call(f, <<>>))>>)) = EvalAt(1, Call(f, <<p>>))
PoolC18 == SetToSeq({Rel(r) : r \in Seq2Set(PathSuffixes)}
                    \cup {Abs(p.steps \o r) : p \in Seq2Set(PathPrefixes), r \in Seq2Set(PathSuffixes)}
                    \cup {Abs(p.steps \o <<FnStep(Call(f, <<>>))>>) : p \in Seq2Set(PathPrefixes), f \in Seq2Set(CtxFns)}
                    \cup {Call(f, <<p>>) : p \in Seq2Set(PathPrefixes), f \in Seq2Set(CtxFns)}
                    \cup {Rel(<<Step("child", T_any), FnStep(Call(f, <<>>))>>) : f \in Seq2Set(CtxFns)}
                    \cup {Rel(<<Step("ancestor-or-self", T_any), FnStep(Call(<<"c","o","u","n","t">>, <<Rel(<<Self>>)>>))>>)})

ASSUME Family = "C02" => EmitPool("C02.preds", PoolC02) /\ EmitPool("C02.abs", PoolC02Abs)
ASSUME Family = "C03" => EmitPool("C03.union", PoolC03)
ASSUME Family = "C18" => EmitPool("C18.compose", PoolC18)
RootOnly(dd, env, pool) == [i \in 1..Len(pool) |-> CCase(dd, env, 1, pool, i)]
Emit == Complete =>
  CASE Family = "C02" -> EmitLine("C02.preds", doc, Env, AllCCases(doc, Env, PoolC02)) /\ EmitLine("C02.abs", doc, Env, RootOnly(doc, Env, PoolC02Abs))
    [] Family = "C03" -> EmitLine("C03.union", doc, Env, AllCCases(doc, Env, PoolC03))
    [] Family = "C18" -> EmitLine("C18.compose", doc, Env, AllCCases(doc, Env, PoolC18))
    [] OTHER -> TRUE
=============================================================================
