CONSTANTS
  OpenFx = {}
INIT Init
NEXT Next
