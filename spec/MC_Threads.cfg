CONSTANTS
  OpenFx = {}
  MaxSteps = 3
  Threads = 2
  LegacyUnionInPlace = FALSE
  EmitOn = TRUE
INIT Init
NEXT Next
INVARIANTS TypeOK ResultsCanonical Emit
PROPERTIES Frame HeldStable SerialValue
