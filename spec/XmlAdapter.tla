----------------------------- MODULE XmlAdapter -----------------------------
(* C09: what ReadXml must build, at the level of markup items.               *)
(*                                                                          *)
(* A document is a sequence of items                                         *)
(*   [k |-> "start", pre, lo, decls |-> Seq([pre, uri]), attrs |-> Seq([pre, lo, v])] *)
(*   [k |-> "end"]   [k |-> "chars", v, how |-> "plain" | "cdata" | "ref"]    *)
(*   [k |-> "comment", v]   [k |-> "pi", lo, v]                               *)
(* (the XML declaration, encoding and prefix spelling are serialisation      *)
(* choices of the harness).  XmlEvents is the Parser event stream an adapter *)
(* has to produce; XmlTree is the XPath data model directly: expanded names  *)
(* through the in-scope bindings, one namespace node per in-scope binding    *)
(* (declared, inherited, overridden; xmlns="" removes the default; plus      *)
(* xml), adjacent character data merged into one text node.                  *)
(***************************************************************************)
EXTENDS StoreFn

XmlUri == <<"XMLNS">>
XmlPre == <<"x", "m", "l">>
B(pre, uri) == [pre |-> pre, uri |-> uri]

\* in-scope bindings as an ordered list: an override replaces in place, a new prefix is appended,
\* xmlns="" removes the default binding
RECURSIVE Declare(_, _, _)
Declare(scope, decls, i) ==
  IF i > Len(decls) THEN scope
  ELSE LET dcl == decls[i]
           at == {j \in 1..Len(scope) : scope[j].pre = dcl.pre}
           nxt == IF dcl.pre = <<>> /\ dcl.uri = <<>> THEN SelectSeq(scope, LAMBDA b : b.pre # <<>>)
                  ELSE IF at # {} THEN [scope EXCEPT ![CHOOSE j \in at : TRUE].uri = dcl.uri]
                  ELSE Append(scope, dcl)
       IN Declare(nxt, decls, i + 1)
\* every element (re)declares xml first, as the adapter does
ScopeAfter(scope, decls) == Declare(scope, <<B(XmlPre, XmlUri)>> \o decls, 1)
Lookup(scope, pre) == LET at == {j \in 1..Len(scope) : scope[j].pre = pre} IN IF at = {} THEN <<>> ELSE scope[CHOOSE j \in at : TRUE].uri
IsBound(scope, pre) == pre = XmlPre \/ \E j \in 1..Len(scope) : scope[j].pre = pre
ElemSpace(scope, pre) == Lookup(scope, pre)                          \* unprefixed elements take the default namespace
AttrSpace(scope, pre) == IF pre = <<>> THEN <<>> ELSE Lookup(scope, pre)   \* unprefixed attributes are in no namespace

(***************************************************************************)
(* the event stream                                                        *)
(***************************************************************************)
FlushText(buf) == IF buf = <<>> THEN <<>> ELSE <<[k |-> "text", v |-> buf]>>
RECURSIVE XE(_, _, _, _)
\* items from i on; scopes: stack of in-scope lists; buf: pending character data
XE(items, i, scopes, buf) ==
  IF i > Len(items) THEN FlushText(buf)
  ELSE LET it == items[i] top == scopes[Len(scopes)] IN
    CASE it.k = "chars" -> XE(items, i + 1, scopes, buf \o it.v)
      [] it.k = "start" ->
           LET sc == ScopeAfter(top, it.decls) IN
           FlushText(buf)
           \o <<[k |-> "elem", sp |-> ElemSpace(sc, it.pre), lo |-> it.lo]>>
           \o <<[k |-> "ns", lo |-> XmlPre, v |-> XmlUri]>>
           \o [j \in 1..Len(it.decls) |-> [k |-> "ns", lo |-> it.decls[j].pre, v |-> it.decls[j].uri]]
           \o [j \in 1..Len(it.attrs) |-> [k |-> "attr", sp |-> AttrSpace(sc, it.attrs[j].pre), lo |-> it.attrs[j].lo, v |-> it.attrs[j].v]]
           \o XE(items, i + 1, Append(scopes, sc), <<>>)
      [] it.k = "end" -> FlushText(buf) \o <<[k |-> "end"]>> \o XE(items, i + 1, SubSeq(scopes, 1, Len(scopes) - 1), <<>>)
      [] it.k = "comment" -> FlushText(buf) \o <<[k |-> "comment", v |-> it.v]>> \o XE(items, i + 1, scopes, <<>>)
      [] it.k = "pi" -> FlushText(buf) \o <<[k |-> "pi", lo |-> it.lo, v |-> it.v]>> \o XE(items, i + 1, scopes, <<>>)
XmlEvents(items) == XE(items, 1, <<<<>>>>, <<>>)

(***************************************************************************)
(* the data model, directly                                                *)
(***************************************************************************)
RECURSIVE XT(_, _, _, _, _)
\* dd: document so far; open: stack of open element ids (root at the bottom); scopes as above;
\* tx: id of the text node being extended (0 = none)
XT(items, i, dd, st, tx) ==
  IF i > Len(items) THEN dd
  ELSE LET it == items[i] top == st.scopes[Len(st.scopes)] par == st.open[Len(st.open)] IN
    CASE it.k = "chars" ->
           IF tx # 0 THEN XT(items, i + 1, [dd EXCEPT ![tx].v = @ \o it.v], st, tx)
           ELSE XT(items, i + 1, Append(dd, Node("text", par, <<>>, <<>>, it.v)), st, Len(dd) + 1)
      [] it.k = "start" ->
           LET sc == ScopeAfter(top, it.decls)
               e == Len(dd) + 1
               \* document order of the namespace nodes: as the Store machine lays them out
               \* (inherited ones first, in the parent's order, then the new ones)
               inh == SelectSeq(top, LAMBDA b : \E j \in 1..Len(sc) : sc[j].pre = b.pre)
               new == SelectSeq(sc, LAMBDA b : ~\E j \in 1..Len(top) : top[j].pre = b.pre)
               order == [j \in 1..Len(inh) |-> B(inh[j].pre, Lookup(sc, inh[j].pre))] \o new
               d1 == Append(dd, Node("elem", par, ElemSpace(sc, it.pre), it.lo, <<>>))
               d2 == d1 \o [j \in 1..Len(order) |-> Node("ns", e, <<>>, order[j].pre, order[j].uri)]
               d3 == d2 \o [j \in 1..Len(it.attrs) |-> Node("attr", e, AttrSpace(sc, it.attrs[j].pre), it.attrs[j].lo, it.attrs[j].v)]
           IN XT(items, i + 1, d3, [open |-> Append(st.open, e), scopes |-> Append(st.scopes, sc)], 0)
      [] it.k = "end" -> XT(items, i + 1, dd, [open |-> SubSeq(st.open, 1, Len(st.open) - 1), scopes |-> SubSeq(st.scopes, 1, Len(st.scopes) - 1)], 0)
      [] it.k = "comment" -> XT(items, i + 1, Append(dd, Node("comment", par, <<>>, <<>>, it.v)), st, 0)
      [] it.k = "pi" -> XT(items, i + 1, Append(dd, Node("pi", par, <<>>, it.lo, it.v)), st, 0)
XmlTree(items) == XT(items, 1, <<RootNode>>, [open |-> <<1>>, scopes |-> <<<<>>>>], 0)

\* as sets of namespace nodes per element (their relative order is not part of the data model)
NsSet(dd, e) == {<<dd[m].lo, dd[m].v>> : m \in NsOf(dd, e)}
RECURSIVE NonNs(_)
NonNs(dd) == SelectSeq(dd, LAMBDA n : n.k # "ns")
=============================================================================
