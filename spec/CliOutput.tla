------------------------------ MODULE CliOutput -----------------------------
(* C20: what the command prints, as a function of the arguments, the flags   *)
(* and - per processed file - the shape of the library's result.             *)
(*                                                                          *)
(* Argument trees are sequences of entries                                   *)
(*   [name, cls, in |-> index of the directory entry containing it, 0 = it   *)
(*    is itself a command-line argument]                                     *)
(* cls: "dir" | "xml" (well-formed) | "xmlbad" (malformed) | "xmlent" (uses  *)
(*      the entity &foo;) | "json" | "html" | "txtjson" (JSON in a .txt      *)
(*      file) | "noext" (XML in a file without a registered media type: no   *)
(*      extension, or an unknown one) | "dangling" (unreadable: dangling     *)
(*      symlink, .xml)                                                       *)
(*      | "linkxml" (a symbolic link named *.xml to a well-formed XML file   *)
(*      elsewhere: an input like any other) | "stdinxml" (the argument "-":  *)
(*      well-formed XML on standard input; needs -t, never prefixed) | "svg" *)
(*      (well-formed XML in a .svg file: media type image/svg+xml - the type *)
(*      is found in the media type, not only in its subtype) | "missing" (a   *)
(*      path argument that does not exist: a diagnostic, nothing else, and    *)
(*      the other arguments are processed as if it were not there)            *)
(* Flags: a m n r : BOOLEAN, t : "" | "xml" | "json" | "html", e : BOOLEAN   *)
(*      (-e foo=bar), u : BOOLEAN (-u: non-strict XML decoding),             *)
(*      q : "ns" | "empty" | "num" | "bool" (the kind of value the query     *)
(*      yields) | "err" (well-formed, but its evaluation fails on every      *)
(*      document: an unbound variable) | "bad" (not an XPath expression:     *)
(*      nothing is processed, one diagnostic, no output)                     *)
(* For every file the specification yields                                  *)
(*   [visit |-> walked at all, parse |-> "xml"|"json"|"html"|"none",         *)
(*    diag |-> a diagnostic on stderr is owed, records |-> "none" |          *)
(*    "first" (one record: string value of the result) | "each" (one per     *)
(*    node, string value) | "xml" (one per node, serialised), prefix]        *)
(***************************************************************************)
EXTENDS Integers, Sequences, FiniteSets

IsDirE(e) == e.cls = "dir"
RECURSIVE Under(_, _, _)
\* is entry i below a directory argument (at any depth)?
Under(tree, i, fuel) == IF tree[i].in = 0 \/ fuel = 0 THEN FALSE ELSE TRUE
\* a directory is descended only with -r; without it the directory argument is reported and skipped
Visited(tree, fl, i) == fl.q # "bad" /\ (tree[i].in = 0 \/ fl.r)
ExtType(cls) == CASE cls \in {"xml", "xmlbad", "xmlent", "dangling", "linkxml", "svg", "missing"} -> "xml" [] cls = "json" -> "json" [] cls = "html" -> "html" [] OTHER -> "none"
ParseType(fl, cls) == IF fl.t # "" THEN fl.t ELSE ExtType(cls)
\* does the content parse under the chosen type?  ("unk": not determined - e.g. JSON text read as XML)
Parses(fl, cls, pt) ==
  CASE cls \in {"dangling", "missing"} -> "no"
    [] pt = "none" -> "no"
    \* ("noext": well-formed XML in a file whose name has no extension, or one no media type is registered for - without -t it
    \*  has no type (the case above), with -t xml it is an input like any other)
    [] cls \in {"xml", "noext", "linkxml", "stdinxml", "svg"} -> IF pt = "xml" THEN "yes" ELSE "unk"
    [] cls = "xmlbad" -> IF pt = "xml" THEN (IF fl.u THEN "unk" ELSE "no") ELSE "unk"      \* what a lenient decoder makes of it is not specified
    [] cls = "xmlent" -> IF pt = "xml" THEN (IF fl.e \/ fl.u THEN "yes" ELSE "no") ELSE "unk" \* lenient: the reference stays literal unless -e binds it
    [] cls \in {"json", "txtjson"} -> IF pt = "json" THEN "yes" ELSE "unk"
    [] cls = "html" -> IF pt = "html" THEN "yes" ELSE "unk"
    [] OTHER -> "unk"
Records(fl) == IF fl.q \in {"empty", "err", "bad"} THEN "none"
               ELSE IF fl.q \in {"num", "bool"} THEN "first"
               ELSE IF fl.m THEN "xml" ELSE IF fl.a THEN "each" ELSE "first"
FileSpec(tree, fl, i) ==
  LET e == tree[i]
      visit == Visited(tree, fl, i)
      pt == ParseType(fl, e.cls)
      ok == Parses(fl, e.cls, pt)
  IN IF IsDirE(e) THEN [visit |-> visit, parse |-> "none", diag |-> (e.in = 0 /\ ~fl.r /\ fl.q # "bad"), records |-> "none", prefix |-> FALSE, det |-> TRUE]
     \* (a name inside a directory that does not exist is simply not there)
     ELSE IF ~visit \/ (e.cls = "missing" /\ e.in # 0) THEN [visit |-> FALSE, parse |-> "none", diag |-> FALSE, records |-> "none", prefix |-> FALSE, det |-> TRUE]
     \* (a file that parses but on which the query fails owes a diagnostic naming it, and no record)
     ELSE [visit |-> TRUE, parse |-> pt, diag |-> (ok = "no" \/ (ok = "yes" /\ fl.q = "err")), records |-> IF ok = "yes" THEN Records(fl) ELSE "none",
           prefix |-> ~fl.n /\ e.cls # "stdinxml", det |-> ok # "unk"]
Spec(tree, fl) == [i \in 1..Len(tree) |-> FileSpec(tree, fl, i)]
\* diagnostics that name no file: the expression itself is rejected before any input is touched
GlobalDiag(fl) == fl.q = "bad"
=============================================================================
