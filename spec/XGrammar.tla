------------------------------ MODULE XGrammar ------------------------------
(* C08: the XPath 1.0 grammar (sections 2, 3, and the lexical rules of 3.7) *)
(* as a recursive-descent parser over LEXEMES, producing the expression     *)
(* ASTs of XPath.tla.  Included: the library's documented extensions (a     *)
(* function call as a step, '*:n', '#' in names); excluded: id().           *)
(*                                                                          *)
(* Lexemes  [k |-> "name", s |-> chars]      an NCName (any spelling)        *)
(*          [k |-> "qname", pre, lo]  [k |-> "nsany", pre]  [k |-> "localany", lo] *)
(*          [k |-> "num", v |-> numeral]  [k |-> "lit", s]  [k |-> "var", pre, lo] *)
(*          [k |-> "p", c |-> "(" ")" "[" "]" "/" "//" "|" "+" "-" "*" "=" "!=" "<" "<=" ">" ">=" "," "::" "@" "." ".."] *)
(***************************************************************************)
EXTENDS XPath

P_(c) == [k |-> "p", c |-> c]
NameL(s) == [k |-> "name", s |-> s]
IsP(t, c) == t.k = "p" /\ t.c = c
OperatorChars == {"/", "//", "|", "+", "-", "=", "!=", "<", "<=", ">", ">="}
OperatorNames == {<<"a","n","d">>, <<"o","r">>, <<"m","o","d">>, <<"d","i","v">>}
NodeTypes == {<<"c","o","m","m","e","n","t">>, <<"t","e","x","t">>, <<"n","o","d","e">>,
              <<"p","r","o","c","e","s","s","i","n","g","-","i","n","s","t","r","u","c","t","i","o","n">>}
AxisOf(s) ==   \* the axis a name spells, or "" if none
  LET table == << <<<<"a","n","c","e","s","t","o","r">>, "ancestor">>, <<<<"a","n","c","e","s","t","o","r","-","o","r","-","s","e","l","f">>, "ancestor-or-self">>,
                  <<<<"a","t","t","r","i","b","u","t","e">>, "attribute">>, <<<<"c","h","i","l","d">>, "child">>, <<<<"d","e","s","c","e","n","d","a","n","t">>, "descendant">>,
                  <<<<"d","e","s","c","e","n","d","a","n","t","-","o","r","-","s","e","l","f">>, "descendant-or-self">>, <<<<"f","o","l","l","o","w","i","n","g">>, "following">>,
                  <<<<"f","o","l","l","o","w","i","n","g","-","s","i","b","l","i","n","g">>, "following-sibling">>, <<<<"n","a","m","e","s","p","a","c","e">>, "namespace">>,
                  <<<<"p","a","r","e","n","t">>, "parent">>, <<<<"p","r","e","c","e","d","i","n","g">>, "preceding">>,
                  <<<<"p","r","e","c","e","d","i","n","g","-","s","i","b","l","i","n","g">>, "preceding-sibling">>, <<<<"s","e","l","f">>, "self">> >>
      hits == {i \in 1..Len(table) : table[i][1] = s}
  IN IF hits = {} THEN "" ELSE table[CHOOSE i \in hits : TRUE][2]

(***************************************************************************)
(* 3.7 disambiguation: classify every lexeme, left to right.               *)
(* classes: "opname" (and or mod div as operators), "mul", "wild",          *)
(* "fn" (function name), "ntype" (node type), "axis", "ntest" (a name as a  *)
(* name test), or "-" for lexemes that need no classification.              *)
(***************************************************************************)
RECURSIVE Classify(_, _, _)
Classify(toks, i, acc) ==
  IF i > Len(toks) THEN acc
  ELSE LET t == toks[i]
           prevOperandEnd ==   \* "there is a preceding token and it is not one of @ :: ( [ , or an Operator"
             i > 1 /\ LET p == toks[i - 1] pc == acc[i - 1] IN
                      ~(\/ (p.k = "p" /\ p.c \in {"@", "::", "(", "[", ","} \cup OperatorChars)
                        \/ pc \in {"opname", "mul"})
           nextIs(c) == i < Len(toks) /\ IsP(toks[i + 1], c)
           cls == IF IsP(t, "*") THEN (IF prevOperandEnd THEN "mul" ELSE "wild")
                  ELSE IF t.k = "name" THEN
                     (IF prevOperandEnd THEN (IF t.s \in OperatorNames THEN "opname" ELSE "ntest")   \* a name where an operator must stand: error later
                      ELSE IF nextIs("(") THEN (IF t.s \in NodeTypes THEN "ntype" ELSE "fn")
                      ELSE IF nextIs("::") THEN "axis"
                      ELSE "ntest")
                  ELSE IF t.k = "qname" /\ nextIs("(") /\ ~prevOperandEnd THEN "fn"
                  ELSE "-"
       IN Classify(toks, i + 1, Append(acc, cls))
Classes(toks) == Classify(toks, 1, <<>>)

(***************************************************************************)
(* The parser.  Every function takes the position i and returns            *)
(* [ok, e, i] (e: AST or step list).  T = the lexemes, C = their classes.   *)
(***************************************************************************)
Fail == [ok |-> FALSE]
Ok(e, i) == [ok |-> TRUE, e |-> e, i |-> i]
SelfStep == [ax |-> "self", test |-> [k |-> "node"], preds |-> <<>>]
ParentStep == [ax |-> "parent", test |-> [k |-> "node"], preds |-> <<>>]
DoSStep == [ax |-> "descendant-or-self", test |-> [k |-> "node"], preds |-> <<>>]
BinOpOf(T, C, i) ==   \* the binary operator at position i: [lvl, op] or [lvl |-> 0]
  IF i > Len(T) THEN [lvl |-> 0]
  ELSE LET t == T[i] c == C[i] IN
    IF c = "opname" THEN (CASE t.s = <<"o","r">> -> [lvl |-> 1, op |-> "or"] [] t.s = <<"a","n","d">> -> [lvl |-> 2, op |-> "and"]
                            [] t.s = <<"d","i","v">> -> [lvl |-> 6, op |-> "div"] [] t.s = <<"m","o","d">> -> [lvl |-> 6, op |-> "mod"])
    ELSE IF c = "mul" THEN [lvl |-> 6, op |-> "mul"]
    ELSE IF t.k = "p" THEN
      (CASE t.c = "=" -> [lvl |-> 3, op |-> "eq"] [] t.c = "!=" -> [lvl |-> 3, op |-> "ne"]
         [] t.c = "<" -> [lvl |-> 4, op |-> "lt"] [] t.c = "<=" -> [lvl |-> 4, op |-> "le"] [] t.c = ">" -> [lvl |-> 4, op |-> "gt"] [] t.c = ">=" -> [lvl |-> 4, op |-> "ge"]
         [] t.c = "+" -> [lvl |-> 5, op |-> "add"] [] t.c = "-" -> [lvl |-> 5, op |-> "sub"]
         [] OTHER -> [lvl |-> 0])
    ELSE [lvl |-> 0]

RECURSIVE PLevel(_, _, _, _), PLevelRest(_, _, _, _, _), PUnary(_, _, _), PUnion(_, _, _), PUnionRest(_, _, _, _), PPath(_, _, _),
          PRelPath(_, _, _, _), PStep(_, _, _), PPreds(_, _, _, _), PPrimary(_, _, _), PArgs(_, _, _, _)

\* binary levels 1..6 (or, and, equality, relational, additive, multiplicative), left associative
PLevel(T, C, i, lvl) ==
  IF lvl > 6 THEN PUnary(T, C, i)
  ELSE LET l == PLevel(T, C, i, lvl + 1) IN IF ~l.ok THEN Fail ELSE PLevelRest(T, C, l.e, l.i, lvl)
PLevelRest(T, C, left, i, lvl) ==
  LET o == BinOpOf(T, C, i) IN
  IF o.lvl # lvl THEN Ok(left, i)
  ELSE LET r == PLevel(T, C, i + 1, lvl + 1) IN
       IF ~r.ok THEN Fail ELSE PLevelRest(T, C, [op |-> o.op, l |-> left, r |-> r.e], r.i, lvl)
PUnary(T, C, i) ==
  IF i <= Len(T) /\ IsP(T[i], "-") THEN LET a == PUnary(T, C, i + 1) IN IF ~a.ok THEN Fail ELSE Ok([op |-> "neg", a |-> a.e], a.i)
  ELSE PUnion(T, C, i)
PUnion(T, C, i) == LET l == PPath(T, C, i) IN IF ~l.ok THEN Fail ELSE PUnionRest(T, C, l.e, l.i)
PUnionRest(T, C, left, i) ==
  IF i <= Len(T) /\ IsP(T[i], "|") THEN LET r == PPath(T, C, i + 1) IN IF ~r.ok THEN Fail ELSE PUnionRest(T, C, [op |-> "union", l |-> left, r |-> r.e], r.i)
  ELSE Ok(left, i)

\* can a step start at i?
StepStart(T, C, i) == i <= Len(T) /\ (\/ C[i] \in {"wild", "fn", "ntype", "axis", "ntest"}
                                      \/ T[i].k \in {"qname", "nsany", "localany"}
                                      \/ (T[i].k = "p" /\ T[i].c \in {"@", ".", ".."}))
PrimaryStart(T, C, i) == i <= Len(T) /\ (T[i].k \in {"var", "lit", "num", "numdot"} \/ IsP(T[i], "(") \/ C[i] = "fn")

PPath(T, C, i) ==
  IF i > Len(T) THEN Fail
  ELSE IF IsP(T[i], "/") THEN
    (IF StepStart(T, C, i + 1) THEN LET r == PRelPath(T, C, i + 1, <<>>) IN IF ~r.ok THEN Fail ELSE Ok([op |-> "path", abs |-> TRUE, steps |-> r.e], r.i)
     ELSE Ok([op |-> "path", abs |-> TRUE, steps |-> <<>>], i + 1))
  ELSE IF IsP(T[i], "//") THEN
    LET r == PRelPath(T, C, i + 1, <<DoSStep>>) IN IF ~r.ok THEN Fail ELSE Ok([op |-> "path", abs |-> TRUE, steps |-> r.e], r.i)
  ELSE IF PrimaryStart(T, C, i) THEN
    LET p == PPrimary(T, C, i) IN
    IF ~p.ok THEN Fail
    ELSE LET ps == PPreds(T, C, p.i, <<>>) IN
      IF ~ps.ok THEN Fail
      ELSE IF ps.i <= Len(T) /\ IsP(T[ps.i], "/") THEN
        LET r == PRelPath(T, C, ps.i + 1, <<>>) IN IF ~r.ok THEN Fail ELSE Ok([op |-> "filter", prim |-> p.e, preds |-> ps.e, steps |-> r.e], r.i)
      ELSE IF ps.i <= Len(T) /\ IsP(T[ps.i], "//") THEN
        LET r == PRelPath(T, C, ps.i + 1, <<DoSStep>>) IN IF ~r.ok THEN Fail ELSE Ok([op |-> "filter", prim |-> p.e, preds |-> ps.e, steps |-> r.e], r.i)
      ELSE IF ps.e = <<>> THEN Ok(p.e, ps.i)
      ELSE Ok([op |-> "filter", prim |-> p.e, preds |-> ps.e, steps |-> <<>>], ps.i)
  ELSE LET r == PRelPath(T, C, i, <<>>) IN IF ~r.ok THEN Fail ELSE Ok([op |-> "path", abs |-> FALSE, steps |-> r.e], r.i)

\* RelativeLocationPath: Step (('/' | '//') Step)*   (acc: steps so far)
PRelPath(T, C, i, acc) ==
  LET s == PStep(T, C, i) IN
  IF ~s.ok THEN Fail
  ELSE LET acc2 == Append(acc, s.e) IN
    IF s.i <= Len(T) /\ IsP(T[s.i], "/") THEN PRelPath(T, C, s.i + 1, acc2)
    ELSE IF s.i <= Len(T) /\ IsP(T[s.i], "//") THEN PRelPath(T, C, s.i + 1, Append(acc2, DoSStep))
    ELSE Ok(acc2, s.i)

NodeTestAt(T, C, i) ==   \* [ok, e |-> test, i]
  IF i > Len(T) THEN Fail
  ELSE LET t == T[i] IN
    IF C[i] = "wild" THEN Ok([k |-> "any"], i + 1)
    ELSE IF C[i] = "ntest" THEN Ok([k |-> "name", pre |-> "", lo |-> t.s], i + 1)
    ELSE IF t.k = "qname" /\ C[i] # "fn" THEN Ok([k |-> "name", pre |-> t.pre, lo |-> t.lo], i + 1)
    ELSE IF t.k = "nsany" THEN Ok([k |-> "nsany", pre |-> t.pre], i + 1)
    ELSE IF t.k = "localany" THEN Ok([k |-> "localany", lo |-> t.lo], i + 1)
    ELSE IF C[i] = "ntype" THEN
      (IF i + 2 <= Len(T) /\ IsP(T[i + 1], "(") /\ IsP(T[i + 2], ")") THEN
         Ok([k |-> CASE t.s = <<"n","o","d","e">> -> "node" [] t.s = <<"t","e","x","t">> -> "text" [] t.s = <<"c","o","m","m","e","n","t">> -> "comment" [] OTHER -> "pi"], i + 3)
       ELSE IF Len(t.s) > 10 /\ i + 3 <= Len(T) /\ IsP(T[i + 1], "(") /\ T[i + 2].k = "lit" /\ IsP(T[i + 3], ")") THEN Ok([k |-> "pit", target |-> T[i + 2].s], i + 4)
       ELSE Fail)
    ELSE Fail
PStep(T, C, i) ==
  IF i > Len(T) THEN Fail
  ELSE LET t == T[i] IN
    IF IsP(t, ".") THEN Ok(SelfStep, i + 1)
    ELSE IF IsP(t, "..") THEN Ok(ParentStep, i + 1)
    ELSE IF C[i] = "fn" THEN LET f == PPrimary(T, C, i) IN IF ~f.ok THEN Fail ELSE Ok([fn |-> f.e], f.i)       \* extension: function call as a step
    ELSE LET ax == IF IsP(t, "@") THEN [ok |-> TRUE, a |-> "attribute", i |-> i + 1]
                   ELSE IF C[i] = "axis" THEN (IF AxisOf(t.s) = "" THEN [ok |-> FALSE] ELSE [ok |-> TRUE, a |-> AxisOf(t.s), i |-> i + 2])
                   ELSE [ok |-> TRUE, a |-> "child", i |-> i]
         IN IF ~ax.ok THEN Fail
            ELSE LET nt == NodeTestAt(T, C, ax.i) IN
              IF ~nt.ok THEN Fail
              ELSE LET ps == PPreds(T, C, nt.i, <<>>) IN IF ~ps.ok THEN Fail ELSE Ok([ax |-> ax.a, test |-> nt.e, preds |-> ps.e], ps.i)
PPreds(T, C, i, acc) ==
  IF i <= Len(T) /\ IsP(T[i], "[") THEN
    LET e == PLevel(T, C, i + 1, 1) IN
    IF ~e.ok \/ e.i > Len(T) \/ ~IsP(T[e.i], "]") THEN Fail ELSE PPreds(T, C, e.i + 1, Append(acc, e.e))
  ELSE Ok(acc, i)
PPrimary(T, C, i) ==
  IF i > Len(T) THEN Fail
  ELSE LET t == T[i] IN
    IF t.k = "var" THEN Ok([op |-> "var", pre |-> t.pre, lo |-> t.lo], i + 1)
    ELSE IF t.k = "lit" THEN Ok([op |-> "lit", s |-> t.s], i + 1)
    ELSE IF t.k \in {"num", "numdot"} THEN Ok([op |-> "num", v |-> t.v], i + 1)     \* "numdot": the spelling Digits '.' (e.g. "1.")
    ELSE IF IsP(t, "(") THEN
      LET e == PLevel(T, C, i + 1, 1) IN IF ~e.ok \/ e.i > Len(T) \/ ~IsP(T[e.i], ")") THEN Fail ELSE Ok(e.e, e.i + 1)
    ELSE IF C[i] = "fn" THEN
      LET nm == IF t.k = "qname" THEN [pre |-> t.pre, lo |-> t.lo] ELSE [pre |-> "", lo |-> t.s] IN
      IF i + 2 <= Len(T) /\ IsP(T[i + 2], ")") THEN Ok([op |-> "call", pre |-> nm.pre, lo |-> nm.lo, args |-> <<>>], i + 3)
      ELSE LET as == PArgs(T, C, i + 2, <<>>) IN IF ~as.ok THEN Fail ELSE Ok([op |-> "call", pre |-> nm.pre, lo |-> nm.lo, args |-> as.e], as.i)
    ELSE Fail
PArgs(T, C, i, acc) ==
  LET e == PLevel(T, C, i, 1) IN
  IF ~e.ok \/ e.i > Len(T) THEN Fail
  ELSE IF IsP(T[e.i], ",") THEN PArgs(T, C, e.i + 1, Append(acc, e.e))
  ELSE IF IsP(T[e.i], ")") THEN Ok(Append(acc, e.e), e.i + 1)
  ELSE Fail

\* the whole string: accepted iff an expression spans all lexemes
Parse(toks) == IF toks = <<>> THEN Fail
               ELSE LET C == Classes(toks) r == PLevel(toks, C, 1, 1) IN
                    IF r.ok /\ r.i = Len(toks) + 1 THEN r ELSE Fail

(***************************************************************************)
(* Unparse: lexemes of an AST (minimal parentheses, unabbreviated).  Used  *)
(* to validate the parser: Parse(Unparse(e)) = e.                           *)
(***************************************************************************)
ChS(s) == s
AxisChars(a) ==
  CASE a = "ancestor" -> <<"a","n","c","e","s","t","o","r">> [] a = "ancestor-or-self" -> <<"a","n","c","e","s","t","o","r","-","o","r","-","s","e","l","f">>
    [] a = "attribute" -> <<"a","t","t","r","i","b","u","t","e">> [] a = "child" -> <<"c","h","i","l","d">> [] a = "descendant" -> <<"d","e","s","c","e","n","d","a","n","t">>
    [] a = "descendant-or-self" -> <<"d","e","s","c","e","n","d","a","n","t","-","o","r","-","s","e","l","f">> [] a = "following" -> <<"f","o","l","l","o","w","i","n","g">>
    [] a = "following-sibling" -> <<"f","o","l","l","o","w","i","n","g","-","s","i","b","l","i","n","g">> [] a = "namespace" -> <<"n","a","m","e","s","p","a","c","e">>
    [] a = "parent" -> <<"p","a","r","e","n","t">> [] a = "preceding" -> <<"p","r","e","c","e","d","i","n","g">>
    [] a = "preceding-sibling" -> <<"p","r","e","c","e","d","i","n","g","-","s","i","b","l","i","n","g">> [] a = "self" -> <<"s","e","l","f">>
PrecOfE(e) == CASE e.op = "or" -> 1 [] e.op = "and" -> 2 [] e.op \in {"eq", "ne"} -> 3 [] e.op \in {"lt", "le", "gt", "ge"} -> 4 [] e.op \in {"add", "sub"} -> 5
                [] e.op \in {"mul", "div", "mod"} -> 6 [] e.op = "neg" -> 7 [] e.op = "union" -> 8 [] OTHER -> 9
OpLex(op) == CASE op = "or" -> NameL(<<"o","r">>) [] op = "and" -> NameL(<<"a","n","d">>) [] op = "div" -> NameL(<<"d","i","v">>) [] op = "mod" -> NameL(<<"m","o","d">>)
               [] op = "mul" -> P_("*") [] op = "eq" -> P_("=") [] op = "ne" -> P_("!=") [] op = "lt" -> P_("<") [] op = "le" -> P_("<=") [] op = "gt" -> P_(">") [] op = "ge" -> P_(">=")
               [] op = "add" -> P_("+") [] op = "sub" -> P_("-") [] op = "union" -> P_("|")
RECURSIVE Unparse(_), UnparseSteps(_, _), UnparsePreds(_, _)
Paren(e, need) == IF need THEN <<P_("(")>> \o Unparse(e) \o <<P_(")")>> ELSE Unparse(e)
TestLex(t) == CASE t.k = "node" -> <<NameL(<<"n","o","d","e">>), P_("("), P_(")")>> [] t.k = "text" -> <<NameL(<<"t","e","x","t">>), P_("("), P_(")")>>
                [] t.k = "comment" -> <<NameL(<<"c","o","m","m","e","n","t">>), P_("("), P_(")")>>
                [] t.k = "pi" -> <<NameL(<<"p","r","o","c","e","s","s","i","n","g","-","i","n","s","t","r","u","c","t","i","o","n">>), P_("("), P_(")")>>
                [] t.k = "pit" -> <<NameL(<<"p","r","o","c","e","s","s","i","n","g","-","i","n","s","t","r","u","c","t","i","o","n">>), P_("("), [k |-> "lit", s |-> t.target], P_(")")>>
                [] t.k = "any" -> <<P_("*")>>
                [] t.k = "name" -> IF t.pre = "" THEN <<NameL(t.lo)>> ELSE <<[k |-> "qname", pre |-> t.pre, lo |-> t.lo]>>
                [] t.k = "nsany" -> <<[k |-> "nsany", pre |-> t.pre]>> [] t.k = "localany" -> <<[k |-> "localany", lo |-> t.lo]>>
UnparsePreds(ps, j) == IF j > Len(ps) THEN <<>> ELSE <<P_("[")>> \o Unparse(ps[j]) \o <<P_("]")>> \o UnparsePreds(ps, j + 1)
UnparseSteps(ss, j) ==
  IF j > Len(ss) THEN <<>>
  ELSE (IF j > 1 THEN <<P_("/")>> ELSE <<>>)
       \o (IF "fn" \in DOMAIN ss[j] THEN Unparse(ss[j].fn)
           ELSE <<NameL(AxisChars(ss[j].ax)), P_("::")>> \o TestLex(ss[j].test) \o UnparsePreds(ss[j].preds, 1))
       \o UnparseSteps(ss, j + 1)
Unparse(e) ==
  CASE e.op = "num" -> <<[k |-> "num", v |-> e.v]>>
    [] e.op = "lit" -> <<[k |-> "lit", s |-> e.s]>>
    [] e.op = "var" -> <<[k |-> "var", pre |-> e.pre, lo |-> e.lo]>>
    [] e.op = "call" -> <<IF e.pre = "" THEN NameL(e.lo) ELSE [k |-> "qname", pre |-> e.pre, lo |-> e.lo], P_("(")>>
                        \o Flatten([i \in 1..Len(e.args) |-> (IF i > 1 THEN <<P_(",")>> ELSE <<>>) \o Unparse(e.args[i])]) \o <<P_(")")>>
    [] e.op = "neg" -> <<P_("-")>> \o Paren(e.a, PrecOfE(e.a) < 7)
    [] e.op = "path" -> IF e.abs THEN <<P_("/")>> \o UnparseSteps(e.steps, 1) ELSE UnparseSteps(e.steps, 1)
    [] e.op = "filter" -> Paren(e.prim, e.prim.op \notin {"num", "lit", "var", "call"}) \o UnparsePreds(e.preds, 1)
                          \o (IF e.steps = <<>> THEN <<>> ELSE <<P_("/")>> \o UnparseSteps(e.steps, 1))
    \* a bare "/" before an operator name or "*" would swallow it as a name test ("/ or /" is the path /or/): parenthesise it
    [] OTHER -> Paren(e.l, PrecOfE(e.l) < PrecOfE(e) \/ (e.l.op = "path" /\ e.l.abs /\ e.l.steps = <<>>)) \o <<OpLex(e.op)>> \o Paren(e.r, PrecOfE(e.r) <= PrecOfE(e))
=============================================================================
