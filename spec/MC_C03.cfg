CONSTANTS
  OpenFx = {}
  ElemNames <- C_ElemNames
  AttrNames <- C_AttrNames
  AttrValues <- C_AttrValues
  NsDecls <- C_NsDecls
  Texts <- C_Texts
  Comments <- C_Comments
  PIs <- C_PIs
  MaxNodes = 5
  MaxDepth = 4
  MaxEvents = 14
  SurplusEnd = FALSE
  Family = "none"
  Scale = "small"
INIT Init
NEXT Next
VIEW View
INVARIANTS TypeOK UnionLaws
