------------------------------ MODULE MC_Names -----------------------------
(* C11 (names resolve through the query's bindings) and C12 (node functions *)
(* and lang()).  Documents from the Store machine with elements and         *)
(* attributes in two namespaces and in none, namespace nodes, PIs and       *)
(* xml:lang attributes; C11 varies the binding environment per document.    *)
(***************************************************************************)
EXTENDS Store, XGen

CONSTANT Family   \* "none" | "C11" | "C12n" | "C12l"

\* pools for the names configurations (C11, C12n)
N_ElemNames == {Nm(<<>>, <<"a">>), Nm(U1, <<"a">>), Nm(U2, <<"b">>), Nm(U1, <<"a","t","t","r","i","b","u","t","e">>), Nm(U2, <<"n","o","d","e">>)}
N_AttrNames == {Nm(<<>>, <<"x">>), Nm(U1, <<"x">>)}
N_AttrValues == {<<"1">>}
N_NsDecls == {[lo |-> <<"d">>, v |-> U1]}      \* the DOCUMENT's prefix: never visible to the query
N_Texts == {<<"t">>}
N_Comments == {}
N_PIs == {[lo |-> <<"a">>, v |-> <<"d">>]}
\* pools for the language configuration (C12l)
XmlLang == Nm(XmlNsUri, <<"l","a","n","g">>)
L_ElemNames == {Nm(<<>>, <<"a">>)}
L_AttrNames == {XmlLang, Nm(<<>>, <<"l","a","n","g">>)}   \* a plain lang attribute (the XHTML idiom lang="en" xml:lang="en") is not xml:lang
L_AttrValues == {<<"e","n">>, <<"E","N","-","u","s","-","x">>, <<"Z","h">>, <<>>}   \* a tag with three subtags: ranges en, en-US and en-us-x match it
L_Texts == {<<"t">>}
L_Comments == {<<"c">>}
View == <<doc, open, phase>>
Seq2Set(s) == {s[i] : i \in 1..Len(s)}

(***************************************************************************)
(* C11                                                                     *)
(***************************************************************************)
\* binding environments: every map from a subset of {p, q} to {U1, U2} (aliases, rebinding, unbound)
\* (the last maps bind prefixes that spell axis names / node types: 'descendant:attribute' is an ordinary QName)
NsMaps == << <<>>, [p |-> U1], [p |-> U2], [q |-> U1], [p |-> U1, q |-> U1], [p |-> U1, q |-> U2], [p |-> U2, q |-> U1],
             [p |-> U1, descendant |-> U1, attribute |-> U2, text |-> U2], [p |-> U2, descendant |-> U2, self |-> U1],
             \* a binding for the EMPTY prefix (people add one hoping for a default namespace): XPath 1.0 has no default
             \* namespace for names in expressions - unprefixed name tests, variables and functions stay in no namespace
             [x \in {"", "p"} |-> U1], [x \in {"", "p", "q"} |-> IF x = "" THEN U2 ELSE U1],
             \* a prefix bound to the EMPTY URI: p:a is the name a in no namespace (not "any namespace")
             [p |-> <<>>, q |-> U1] >>
RevElems == LET s == Asc({n \in Ids(doc) : doc[n].k = "elem"}) IN [i \in 1..Len(s) |-> s[Len(s) + 1 - i]]
VarsOf(ns) == << [sp |-> <<>>, lo |-> <<"v">>, val |-> StrV(<<"a">>)],
                 [sp |-> U1, lo |-> <<"v">>, val |-> NumV(NInt(2))],
                 [sp |-> U2, lo |-> <<"v">>, val |-> BoolV(TRUE)],
                 [sp |-> <<>>, lo |-> <<"n">>, val |-> [t |-> "ns", v |-> <<1>>]],
                 \* the elements of the document, handed over in REVERSE document order (the binding is the caller's and stays as it is)
                 [sp |-> <<>>, lo |-> <<"r">>, val |-> [t |-> "ns", v |-> RevElems]],
                 \* bound to the false / zero / empty value of each type: bound all the same
                 [sp |-> <<>>, lo |-> <<"f","0">>, val |-> BoolV(FALSE)], [sp |-> <<>>, lo |-> <<"z","0">>, val |-> NumV(Zero(1))],
                 [sp |-> <<>>, lo |-> <<"s","0">>, val |-> StrV(<<>>)], [sp |-> U1, lo |-> <<"e","0">>, val |-> [t |-> "ns", v |-> <<>>]] >>
Funcs == << [sp |-> U1, lo |-> <<"f">>, kind |-> "arg", i |-> 2],
            [sp |-> U2, lo |-> <<"f">>, kind |-> "arg", i |-> 1],
            [sp |-> <<>>, lo |-> <<"c","o","u","n","t">>, kind |-> "const", val |-> StrV(<<"u","s","e","r">>)],   \* shadows a builtin
            [sp |-> <<>>, lo |-> <<"n","a","r","g","s">>, kind |-> "nargs"],
            [sp |-> U1, lo |-> <<"p","o","s">>, kind |-> "ctxpos"],
            [sp |-> <<>>, lo |-> <<"h","e","r","e">>, kind |-> "ctxnode"],
            \* ... and the context functions can be shadowed like any other builtin
            [sp |-> <<>>, lo |-> <<"l","a","s","t">>, kind |-> "const", val |-> StrV(<<"m","i","n","e">>)],
            [sp |-> <<>>, lo |-> <<"p","o","s","i","t","i","o","n">>, kind |-> "const", val |-> NumV(NInt(1))] >>
EnvOf(i) == [ns |-> NsMaps[i], vars |-> VarsOf(NsMaps[i]), funcs |-> Funcs]
All(t) == Abs(<<DoS, Step("child", t)>>)
AllAttr(t) == Abs(<<DoS, Step("attribute", t)>>)
PoolC11 == << All(T_name("p", <<"a">>)), All(T_name("q", <<"a">>)), All(T_name("", <<"a">>)), All(T_nsany("p")), All(T_nsany("q")),
              All(T_localany(<<"a">>)), All(T_name("q", <<"b">>)), AllAttr(T_name("p", <<"x">>)), AllAttr(T_name("", <<"x">>)), AllAttr(T_nsany("q")),
              All(T_name("d", <<"a">>)),                                              \* the document's own prefix is NOT bound in the query
              \* name tests on the namespace axis go by the URI the query binds to the name (see NsNameTest): the document's own
              \* prefix d selects nothing, p / q select the nodes for the URIs bound to them, xml nothing unless the query binds it
              Abs(<<DoS, Step("namespace", T_name("", <<"d">>))>>), Abs(<<DoS, Step("namespace", T_name("", <<"p">>))>>), Abs(<<DoS, Step("namespace", T_name("", <<"q">>))>>),
              Call(<<"c","o","u","n","t">>, <<Abs(<<DoS, Step("namespace", T_name("", <<"x","m","l">>))>>)>>),
              Abs(<<DoS, StepP("child", T_any, <<Rel(<<Step("namespace", T_name("", <<"d">>))>>)>>)>>),
              All(T_name("descendant", <<"a">>)), All(T_name("descendant", <<"a","t","t","r","i","b","u","t","e">>)), All(T_name("text", <<"n","o","d","e">>)),
              All(T_name("self", <<"c","h","i","l","d">>)), All(T_nsany("descendant")), AllAttr(T_name("descendant", <<"s","e","l","f">>)),
              All(T_name("p", <<"s","e","l","f">>)), All(T_name("attribute", <<"a">>)),
              Var("", <<"v">>), Var("p", <<"v">>), Var("q", <<"v">>), Var("", <<"n">>), Var("", <<"u">>), Var("p", <<"u">>),
              Var("", <<"r">>), Call(<<"c","o","u","n","t">>, <<Var("", <<"r">>)>>), CallP("p", <<"f">>, <<Var("", <<"r">>), Var("", <<"r">>)>>), Filter(Var("", <<"r">>), <<>>, <<Step("self", T_any)>>),
              Filter(Var("", <<"n">>), <<>>, <<Step("child", T_nsany("p"))>>),
              CallP("p", <<"f">>, <<IntE(1), Lit(<<"a">>)>>), CallP("q", <<"f">>, <<IntE(1), Lit(<<"a">>)>>),
              CallP("p", <<"f">>, <<All(T_any), All(T_name("p", <<"a">>))>>),
              \* every argument is evaluated in the context of the CALL (node, position, size), whatever the arguments before it were
              Abs(<<DoS, Step("child", T_any), FnStep(CallP("p", <<"f">>, <<Rel(<<Step("attribute", T_any)>>), Rel(<<Step("child", T_any)>>)>>))>>),
              Abs(<<DoS, StepP("child", T_any, <<Bin("eq", CallP("p", <<"f">>, <<Lit(<<"z">>), Call(<<"n","a","m","e">>, <<>>)>>), Lit(<<"a">>))>>)>>),
              Call(<<"c","o","u","n","t">>, <<All(T_any)>>), Call(<<"n","a","r","g","s">>, <<IntE(1), IntE(2), Lit(<<>>)>>), Call(<<"n","a","r","g","s">>, <<>>),
              Call(<<"n","o","s","u","c","h">>, <<>>), CallP("p", <<"n","o","s","u","c","h">>, <<>>), CallP("p", <<"c","o","u","n","t">>, <<All(T_any)>>),
              Abs(<<DoS, StepP("child", T_any, <<Bin("eq", CallP("p", <<"p","o","s">>, <<>>), IntE(2))>>)>>),
              Abs(<<DoS, StepP("child", T_any, <<Call(<<"h","e","r","e">>, <<>>)>>)>>),
              Call(<<"c","o","u","n","t">>, <<Call(<<"h","e","r","e">>, <<>>)>>),
              Abs(<<DoS, Step("child", T_any), FnStep(Call(<<"h","e","r","e">>, <<>>))>>),
              Bin("eq", Var("p", <<"v">>), IntE(2)), Call(<<"s","t","r","i","n","g">>, <<Var("", <<"v">>)>>),
              \* a prefixed name test where no context node has a candidate on the axis (children / attributes of text nodes):
              \* an unbound prefix is an error all the same, a bound one selects nothing
              Abs(<<DoS, Step("child", T_text), Step("child", T_name("q", <<"a">>))>>), Abs(<<DoS, Step("child", T_text), Step("attribute", T_name("q", <<"x">>))>>),
              Abs(<<DoS, Step("child", T_text), Step("child", T_nsany("q"))>>), Call(<<"c","o","u","n","t">>, <<Abs(<<DoS, Step("child", T_text), Step("child", T_name("d", <<"a">>))>>)>>),
              Var("", <<"f","0">>), Var("", <<"z","0">>), Var("", <<"s","0">>), Var("p", <<"e","0">>), Call(<<"c","o","n","c","a","t">>, <<Var("", <<"s","0">>), Lit(<<"|">>), Var("", <<"z","0">>)>>),
              Call(<<"n","o","t">>, <<Var("", <<"f","0">>)>>),
              Call(<<"l","a","s","t">>, <<>>), Abs(<<DoS, StepP("child", T_any, <<Call(<<"p","o","s","i","t","i","o","n">>, <<>>)>>)>>),
              Abs(<<DoS, StepP("child", T_any, <<Bin("eq", Call(<<"l","a","s","t">>, <<>>), Lit(<<"m","i","n","e">>))>>)>>) >>
\* invariance under consistent renaming of the query's prefixes: swapping the roles of p and q in
\* the expression and in the bindings does not change the value
RECURSIVE SwapE(_)
SwapPre(pre) == IF pre = "p" THEN "q" ELSE IF pre = "q" THEN "p" ELSE pre
SwapT(t) == IF t.k \in {"name", "nsany"} THEN [t EXCEPT !.pre = SwapPre(t.pre)] ELSE t
\* (on the namespace axis the NAME is what the bindings are asked about)
SwapNsT(t) == IF t.k = "name" /\ t.pre = "" /\ t.lo \in {<<"p">>, <<"q">>} THEN [t EXCEPT !.lo = <<SwapPre(t.lo[1])>>] ELSE SwapT(t)
SwapSteps(ss) == [i \in 1..Len(ss) |-> IF "fn" \in DOMAIN ss[i] THEN [fn |-> SwapE(ss[i].fn)]
                                       ELSE [ax |-> ss[i].ax, test |-> IF ss[i].ax = "namespace" THEN SwapNsT(ss[i].test) ELSE SwapT(ss[i].test), preds |-> [j \in 1..Len(ss[i].preds) |-> SwapE(ss[i].preds[j])]]]
SwapE(e) ==
  CASE e.op \in {"num", "lit"} -> e
    [] e.op = "var" -> [e EXCEPT !.pre = SwapPre(e.pre)]
    [] e.op = "call" -> [op |-> "call", pre |-> SwapPre(e.pre), lo |-> e.lo, args |-> [i \in 1..Len(e.args) |-> SwapE(e.args[i])]]
    [] e.op = "path" -> [e EXCEPT !.steps = SwapSteps(e.steps)]
    [] e.op = "filter" -> [op |-> "filter", prim |-> SwapE(e.prim), preds |-> [j \in 1..Len(e.preds) |-> SwapE(e.preds[j])], steps |-> SwapSteps(e.steps)]
    [] e.op = "neg" -> [e EXCEPT !.a = SwapE(e.a)]
    [] OTHER -> [op |-> e.op, l |-> SwapE(e.l), r |-> SwapE(e.r)]
SwapNs(ns) == [pre \in {SwapPre(x) : x \in DOMAIN ns} |-> ns[SwapPre(pre)]]
RenamingInvariance == (Complete /\ Family = "C11") =>
  \A i \in 1..Len(NsMaps), k \in 1..Len(PoolC11) :
     LET env == EnvOf(i) env2 == [env EXCEPT !.ns = SwapNs(env.ns)] IN
     Eval(doc, env, PoolC11[k], Ctx(1)) = Eval(doc, env2, SwapE(PoolC11[k]), Ctx(1))
\* unprefixed name tests select only nodes in no namespace; prefixed ones only by URI
NamesByUri == (Complete /\ Family = "C11") =>
  \A i \in 1..Len(NsMaps) : LET env == EnvOf(i) IN
     /\ \A m \in Eval(doc, env, All(T_name("", <<"a">>)), Ctx(1)).v : doc[m].sp = <<>>
     /\ ("p" \in DOMAIN env.ns) => \A m \in Eval(doc, env, All(T_nsany("p")), Ctx(1)).v : doc[m].sp = env.ns["p"]

(***************************************************************************)
(* C12                                                                     *)
(***************************************************************************)
S_ln == <<"l","o","c","a","l","-","n","a","m","e">>
S_nu == <<"n","a","m","e","s","p","a","c","e","-","u","r","i">>
S_nm == <<"n","a","m","e">>
NameFns == <<S_ln, S_nu, S_nm>>
ArgAxes == <<"self", "child", "attribute", "namespace", "parent", "ancestor", "ancestor-or-self", "preceding", "preceding-sibling", "following", "descendant">>
PoolC12n == [i \in 1..3 |-> Call(NameFns[i], <<>>)]
            \o [k \in 1..(3 * Len(ArgAxes)) |-> Call(NameFns[((k - 1) % 3) + 1],
                    <<Rel(<<Step(ArgAxes[((k - 1) \div 3) + 1], IF ArgAxes[((k - 1) \div 3) + 1] = "namespace" THEN T_any ELSE T_node)>>)>>)]
            \o << Call(S_nm, <<Abs(<<DoS, Step("child", T_pi)>>)>>), Call(S_ln, <<Abs(<<DoS, Step("attribute", T_any)>>)>>),
                  Call(S_nu, <<Abs(<<DoS, Step("attribute", T_nsany("p"))>>)>>), Call(S_nm, <<Abs(<<DoS, Step("child", T_name("", <<"n","o">>))>>)>>),
                  Bin("eq", Call(S_nm, <<>>), Call(S_ln, <<>>)),
                  Call(<<"c","o","u","n","t">>, <<Lit(<<"a">>)>>), Call(<<"c","o","u","n","t">>, <<IntE(1)>>), Call(<<"c","o","u","n","t">>, <<Call(<<"t","r","u","e">>, <<>>)>>),
                  Call(<<"c","o","u","n","t">>, <<Rel(<<Step("ancestor-or-self", T_node)>>)>>),
                  Abs(<<DoS, Step("child", T_any), FnStep(Call(S_nm, <<>>))>>),
                  \* a node-set the CALLER put together ($u, see EnvC12Of): neither ascending nor descending, its first node in
                  \* document order sits in the middle
                  Call(S_nm, <<Var("", <<"u">>)>>), Call(S_ln, <<Var("", <<"u">>)>>), Call(S_nu, <<Var("", <<"u">>)>>) >>
\* the namespace axis only holds one node per prefix here, so "first in document order" is determined
EnvC12 == EnvNs([p |-> U1])
\* $u: the named tree nodes of the document (elements, PIs) in the order second, first, third, ... - what a caller gets
\* who collects cursors himself
NamedIds(dd) == Asc({n \in Ids(dd) : dd[n].k \in {"elem", "pi"}})
Shuffled(s) == IF Len(s) < 2 THEN s ELSE <<s[2], s[1]>> \o SubSeq(s, 3, Len(s))
EnvC12Of(dd) == [ns |-> [p |-> U1], vars |-> <<[sp |-> <<>>, lo |-> <<"u">>, val |-> [t |-> "ns", v |-> Shuffled(NamedIds(dd))]]>>, funcs |-> <<>>]
NameLaws == (Complete /\ Family = "C12n") => \A n \in Ids(doc) :
  LET V(f) == Eval(doc, EnvC12, Call(f, <<>>), Ctx(n)).v IN
  /\ (V(S_nu) = <<>> => V(S_nm) = V(S_ln))
  /\ (V(S_nu) # <<>> => V(S_nm) = <<"{">> \o V(S_nu) \o <<"}">> \o V(S_ln))
  /\ (doc[n].k \in {"root", "text", "comment"} => V(S_ln) = <<>> /\ V(S_nu) = <<>>)
  /\ (doc[n].k \in {"pi", "ns"} => V(S_ln) = doc[n].lo /\ V(S_nu) = <<>>)

LangTags == << <<"e","n">>, <<"E","N">>, <<"e","n","-","U","S">>, <<"e","n","-","u">>, <<"z","H">>, <<"e">>, <<>>, <<"e","n","-">>, <<"e","n","-","u","s","-","x">> >>
S_lang == <<"l","a","n","g">>
LangE(i) == Call(S_lang, <<Lit(LangTags[i])>>)
PoolC12l == [i \in 1..Len(LangTags) |-> LangE(i)]
            \o << Bin("and", LangE(1), LangE(3)), Bin("or", LangE(5), LangE(1)), Bin("and", LangE(3), LangE(1)),
                  Abs(<<DoS, StepP("child", T_any, <<LangE(1), LangE(9)>>)>>), Abs(<<DoS, StepP("child", T_any, <<LangE(9), LangE(1)>>)>>),
                  Call(<<"c","o","n","c","a","t">>, <<Call(<<"s","t","r","i","n","g">>, <<LangE(5)>>), Call(<<"s","t","r","i","n","g">>, <<LangE(2)>>)>>) >>
            \o << Abs(<<DoS, StepP("child", T_node, <<Call(S_lang, <<Lit(<<"e","n">>)>>)>>)>>),
                  Call(<<"c","o","u","n","t">>, <<Abs(<<DoS, StepP("attribute", T_any, <<Call(S_lang, <<Lit(<<"E","n","-","U","s">>)>>)>>)>>)>>),
                  Call(S_lang, <<Rel(<<Step("attribute", T_any)>>)>>) >>
\* lang(L) depends only on the nearest xml:lang of the ancestor-or-self elements
LangLaws == (Complete /\ Family = "C12l") => \A n \in Ids(doc), i \in 1..Len(LangTags) :
  LET r == Eval(doc, EmptyEnv, Call(S_lang, <<Lit(LangTags[i])>>), Ctx(n)).v
      holders == {e \in Anc(doc, n) \cup {n} : doc[e].k = "elem" /\ LangAttrs(doc, e) # {}}
  IN /\ (holders = {} => ~r)
     /\ (doc[n].k \in {"attr", "ns", "text", "comment"} => r = Eval(doc, EmptyEnv, Call(S_lang, <<Lit(LangTags[i])>>), Ctx(doc[n].p)).v)
     /\ r = Eval(doc, EmptyEnv, Call(S_lang, <<Lit(ToLowerS(LangTags[i]))>>), Ctx(n)).v      \* case-insensitive

ASSUME Family = "C11" => EmitPool("C11.bind", PoolC11)
ASSUME Family = "C12n" => EmitPool("C12.names", PoolC12n)
ASSUME Family = "C12l" => EmitPool("C12.lang", PoolC12l)
RootCases(dd, env, pool) == [i \in 1..Len(pool) |-> CCase(dd, env, 1, pool, i)]
Emit == Complete =>
  CASE Family = "C11" -> /\ \A i \in 1..Len(NsMaps) : EmitLine("C11.bind", doc, EnvOf(i), RootCases(doc, EnvOf(i), PoolC11))
                         \* the same queries with the same prefixes and variables but NO function library (the lines are replayed in one process)
                         /\ EmitLine("C11.bind", doc, [EnvOf(2) EXCEPT !.funcs = <<>>], RootCases(doc, [EnvOf(2) EXCEPT !.funcs = <<>>], PoolC11))
    [] Family = "C12n" -> EmitLine("C12.names", doc, EnvC12Of(doc), AllCCases(doc, EnvC12Of(doc), PoolC12n))
    [] Family = "C12l" -> EmitLine("C12.lang", doc, EmptyEnv, AllCCases(doc, EmptyEnv, PoolC12l))
    [] OTHER -> TRUE
=============================================================================
