CONSTANTS
  ElemNames <- H_ElemNames
  AttrNames <- H_AttrNames
  AttrValues <- H_AttrValues
  NsDecls <- Empty
  Texts <- H_Texts
  Comments <- H_Comments
  PIs <- Empty
  MaxNodes = 5
  MaxDepth = 4
  MaxEvents = 14
  SurplusEnd = FALSE
  EmitOn = TRUE
INIT MInit
NEXT MNext
VIEW MView
INVARIANTS PrefixOK CompleteAtEOF ContractOK MappingIsIdentity Emit
