-------------------------------- MODULE Xsel -------------------------------
(* The system specification: the state of a client program that uses the    *)
(* public API - a loaded document, the node-sets it holds (Go slices:       *)
(* backing array, offset, length - so aliasing between a result and its      *)
(* sub-slices is part of the state) and the history of its calls.  Actions   *)
(* are the public calls:                                                    *)
(*   ExecCall(t, ...) / ExecRet(t)  Exec of a compiled expression with       *)
(*                  variables bound to held node-sets, split into call and   *)
(*                  return so that calls of several threads interleave       *)
(*   Reslice(h, lo, hi)  the client takes a sub-slice of a held node-set     *)
(* Ideal semantics (C13, C14): a call returns Eval(...) in a fresh array and *)
(* changes nothing else.  LegacyUnionInPlace = TRUE models the repaired      *)
(* defect (union appended to and sorted its left operand in place) and must  *)
(* make the frame property fail: that is the non-vacuity check of this model.*)
(***************************************************************************)
EXTENDS XGen

CONSTANTS MaxSteps,            \* bound on the number of calls in a history
          Threads,             \* number of client threads (1 = sequential histories, C13)
          LegacyUnionInPlace,  \* BOOLEAN, see above
          EmitOn

VARIABLES arrays,   \* backing arrays: sequence of sequences of node ids (Len = capacity)
          held,     \* node-sets held by the client: [arr, off, len]
          steps,    \* history of completed calls (what the harness replays)
          pend      \* per thread: the call in progress ([e, v, w]) or <<>>

vars == <<arrays, held, steps, pend>>

El(p, lo) == [k |-> "elem", p |-> p, sp |-> <<>>, lo |-> lo, v |-> <<>>]
Tx(p, v) == [k |-> "text", p |-> p, sp |-> <<>>, lo |-> <<>>, v |-> v]
\* <r><a>1</a><b>2</b><c>3</c><d>4</d></r>
SDoc == << [k |-> "root", p |-> 0, sp |-> <<>>, lo |-> <<>>, v |-> <<>>], El(1, <<"r">>),
           El(2, <<"a">>), Tx(3, <<"1">>), El(2, <<"b">>), Tx(5, <<"2">>), El(2, <<"c">>), Tx(7, <<"3">>), El(2, <<"d">>), Tx(9, <<"4">>) >>
ASSUME WellFormed(SDoc)

VVar == Var("", <<"v">>)
WVar == Var("", <<"w">>)
R_ == Abs(<<Step("child", T_name("", <<"r">>))>>)
Kids == Abs(<<Step("child", T_name("", <<"r">>)), Step("child", T_any)>>)
\* the calls a client makes: expressions over the held node-sets $v and $w
Exprs == << Kids,                                                        \* 1  /r/*            (4 nodes)
            Abs(<<DoS, Step("child", T_name("", <<"d">>)), Step("preceding-sibling", T_any)>>),   \* 2  reverse axis
            Bin("union", VVar, R_),                                      \* 3  $v | /r        (new node sorts to the front)
            Bin("union", VVar, WVar),                                    \* 4  $v | $w
            Bin("union", R_, VVar),                                      \* 5  /r | $v
            Filter(VVar, <<IntE(1)>>, <<>>),                             \* 6  $v[1]
            Filter(VVar, <<>>, <<Step("following-sibling", T_any)>>),    \* 7  $v/following-sibling::*
            Call(<<"c","o","u","n","t">>, <<Bin("union", VVar, Kids)>>), \* 8  count($v | /r/*)
            Filter(Bin("union", VVar, WVar), <<Call(<<"l","a","s","t">>, <<>>)>>, <<Step("parent", T_node)>>),  \* 9
            Abs(<<DoS, StepP("child", T_any, <<Bin("eq", Rel(<<Self>>), VVar)>>)>>),   \* 10 //*[. = $v]
            Filter(VVar, <<>>, <<Step("self", T_name("", <<"c">>))>>),   \* 11 $v/self::c  (a node test applied to the held set itself)
            Filter(VVar, <<>>, <<DoS, Step("child", T_node)>>),             \* 12 $v//node()  (descendant-or-self starts from the held set itself)
            Abs(<<Step("descendant", T_node)>>) >>                          \* 13 /descendant::node()  (the result is one unfiltered axis walk)
UsesV(i) == i \in {3, 4, 5, 6, 7, 8, 9, 10, 11, 12}
UsesW(i) == i \in {4, 9}

Contents(h) == SubSeq(arrays[held[h].arr], held[h].off + 1, held[h].off + held[h].len)
Cap(h) == Len(arrays[held[h].arr]) - held[h].off
EnvFor(v, w) == [ns |-> <<>>, funcs |-> <<>>,
                 vars |-> (IF v = 0 THEN <<>> ELSE <<[sp |-> <<>>, lo |-> <<"v">>, val |-> [t |-> "ns", v |-> Contents(v)]]>>)
                          \o (IF w = 0 THEN <<>> ELSE <<[sp |-> <<>>, lo |-> <<"w">>, val |-> [t |-> "ns", v |-> Contents(w)]]>>)]
Value(i, v, w) == Eval(SDoc, EnvFor(v, w), Exprs[i], Ctx(1))

Init == /\ arrays = <<>> /\ held = <<>> /\ steps = <<>>
        /\ pend = [t \in 1..Threads |-> <<>>]

Started == Len(steps) + Cardinality({t \in 1..Threads : pend[t] # <<>>})

ExecCall(t, i, v, w) ==
  /\ pend[t] = <<>> /\ Started < MaxSteps
  /\ (UsesV(i) <=> v # 0) /\ (UsesW(i) <=> w # 0)
  /\ v \in 0..Len(held) /\ w \in 0..Len(held)
  /\ pend' = [pend EXCEPT ![t] = <<[e |-> i, v |-> v, w |-> w]>>]
  /\ UNCHANGED <<arrays, held, steps>>

\* the repaired defect: append(left, right...) into the spare capacity of the left operand's array,
\* then sort + dedupe that region in place
LegacyUnion(i, v, r) ==
  LET left == Contents(v)
      right == SelectSeq(Asc(r.v), LAMBDA x : TRUE)
      merged == left \o SelectSeq(right, LAMBDA x : \A j \in 1..Len(left) : left[j] # x) \o SelectSeq(right, LAMBDA x : \E j \in 1..Len(left) : left[j] = x)
      fits == Len(merged) <= Cap(v)
      sorted == Asc(ToSet(merged)) \o [j \in 1..(Len(merged) - Cardinality(ToSet(merged))) |-> merged[Len(merged)]]
  IN IF fits THEN [arrays EXCEPT ![held[v].arr] =
                     [j \in 1..Len(@) |-> IF j > held[v].off /\ j <= held[v].off + Len(merged) THEN sorted[j - held[v].off] ELSE @[j]]]
     ELSE arrays

\* C03 lets an expression that uses a reverse axis (and is not a union) return its nodes in ascending
\* or in descending document order: the model admits both implementations
Orders(i) == IF UsesReverseAxis(Exprs[i]) /\ Exprs[i].op # "union" THEN {"asc", "dsc"} ELSE {"asc"}
ExecRet(t) ==
  /\ pend[t] # <<>>
  /\ \E ord \in Orders(pend[t][1].e) :
     LET c == pend[t][1]
         r == Value(c.e, c.v, c.w)
         base == IF LegacyUnionInPlace /\ c.e \in {3, 4} /\ r.t = "ns" THEN LegacyUnion(c.e, c.v, r) ELSE arrays
     IN /\ IF r.t = "ns"
           THEN /\ arrays' = Append(base, IF ord = "asc" THEN Asc(r.v) ELSE Dsc(r.v))
                /\ held' = Append(held, [arr |-> Len(arrays) + 1, off |-> 0, len |-> Cardinality(r.v)])
           ELSE /\ arrays' = base /\ held' = held
        /\ steps' = Append(steps, [op |-> "exec", thr |-> t, e |-> c.e, v |-> c.v, w |-> c.w, ord |-> ord, res |-> JV(r)])
  /\ pend' = [pend EXCEPT ![t] = <<>>]

Reslice(h, lo, hi) ==
  /\ Started < MaxSteps /\ \A t \in 1..Threads : pend[t] = <<>>
  /\ h \in 1..Len(held) /\ lo \in 0..held[h].len /\ hi \in lo..held[h].len
  /\ <<lo, hi>> # <<0, held[h].len>>
  /\ held' = Append(held, [arr |-> held[h].arr, off |-> held[h].off + lo, len |-> hi - lo])
  /\ steps' = Append(steps, [op |-> "reslice", h |-> h, lo |-> lo, hi |-> hi])
  /\ UNCHANGED <<arrays, pend>>

Next == \/ \E t \in 1..Threads, i \in 1..Len(Exprs), v \in 0..Len(held), w \in 0..Len(held) : ExecCall(t, i, v, w)
        \/ \E t \in 1..Threads : ExecRet(t)
        \/ \E h \in 1..Len(held), lo \in 0..4, hi \in 0..4 : Reslice(h, lo, hi)
Spec == Init /\ [][Next]_vars

(***************************************************************************)
(* C13 / C14 on the model                                                  *)
(***************************************************************************)
TypeOK == /\ \A h \in 1..Len(held) : held[h].arr \in 1..Len(arrays) /\ held[h].off + held[h].len <= Len(arrays[held[h].arr])
          /\ \A t \in 1..Threads : Len(pend[t]) <= 1
\* no call changes anything the caller holds: existing arrays keep their contents
Frame == [][\A a \in 1..Len(arrays) : arrays'[a] = arrays[a]]_vars
\* hence every held node-set keeps its contents and order
HeldStable == [][\A h \in 1..Len(held) : held'[h] = held[h]]_vars
\* results are duplicate-free and in document order
ResultsCanonical == \A a \in 1..Len(arrays) : IsAsc(arrays[a]) \/ IsDsc(arrays[a])
\* a returning call yields the serial value whatever else is in flight (C14)
SerialValue == [][\A t \in 1..Threads : (pend[t] # <<>> /\ pend'[t] = <<>>) =>
                     steps'[Len(steps')].res = JV(Value(pend[t][1].e, pend[t][1].v, pend[t][1].w))]_vars

Quiescent == \A t \in 1..Threads : pend[t] = <<>>
Emit == (EmitOn /\ Quiescent /\ Len(steps) = MaxSteps) => PrintT(ToJson([fam |-> IF Threads = 1 THEN "C13.history" ELSE "C14.workload", doc |-> SDoc, exprs |-> Exprs, steps |-> steps]))
=============================================================================
