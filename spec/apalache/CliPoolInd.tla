----------------------------- MODULE CliPoolInd -----------------------------
(* Inductive invariant of the worker pool (CliPool.tla), discharged by       *)
(* Apalache: IndInit => IndInv and IndInv /\ Next => IndInv' - the safety    *)
(* properties then hold in EVERY reachable state for the given constants     *)
(* without enumerating the states (TLC enumerates them for smaller ones).    *)
(***************************************************************************)
EXTENDS CliPool, Apalache

CInit == NF = 5 /\ N = 3 /\ Conc = TRUE /\ Prints = {1, 3, 4}

CInitSeq == NF = 5 /\ N = 1 /\ Conc = FALSE /\ Prints = {1, 3, 4}

States == {"new", "spawned", "started", "printed", "released", "done"}
Running == {"spawned", "started", "printed"}
OutSet == {out[i] : i \in DOMAIN out}

Shape ==
  /\ next \in 1..(NF + 1) /\ sem \in 0..N /\ wg \in 0..NF
  /\ wpc \in {"acquire", "add", "spawn", "inline"} /\ main \in {"walk", "wait", "waiting", "exit"}
  /\ DOMAIN st = Files /\ \A f \in Files : st[f] \in States
  /\ (main = "walk" <=> next <= NF)
  /\ (main # "walk" => wpc = "acquire")
  /\ (wpc = "inline" => ~Conc)
  \* the walker has not reached the files behind next, has left the ones before it
  /\ \A f \in Files : (f > next => st[f] = "new") /\ (f < next => st[f] # "new")
  /\ (main = "walk" => (st[next] = "new" <=> wpc # "inline"))
  /\ (wpc = "inline" => st[next] # "done")
  \* inline workers: everything before next is finished
  /\ (~Conc => \A f \in Files : f < next => st[f] = "done")
  \* stdout: one block per file that has printed, nothing else
  /\ Len(out) <= NF
  /\ OutSet = {f \in Files : f \in Prints /\ st[f] \in {"printed", "released", "done"}}
  /\ \A i, j \in DOMAIN out : out[i] = out[j] => i = j
  /\ \A f \in Files : st[f] = "printed" => f \in Prints

IndInv == Shape /\ WaitGroupCounts /\ TokensCount /\ AtMostNRunning /\ ExitOnlyAfterAllPrinted /\ BlocksIntact

\* any state satisfying the invariant (not only the initial one)
IndInit ==
  /\ next = Gen(1) /\ sem = Gen(1) /\ wg = Gen(1) /\ wpc = Gen(1) /\ main = Gen(1)
  /\ st = Gen(6) /\ out = Gen(6)
  /\ IndInv

\* non-vacuity probes: each must be REFUTED from IndInit (a state satisfying IndInv exists with ...)
NoExitState == main # "exit"
NoFullHouse == ~(sem = N /\ wg = N /\ Len(out) = 2)
=============================================================================
