------------------------------- MODULE XDM --------------------------------
(* The XPath 1.0 data model (sections 5, 2.2).                              *)
(*                                                                          *)
(* A document d is a sequence of node records; the index of a record is the *)
(* node's identity AND its rank in document order (an element, then its     *)
(* namespace nodes, then its attributes, then its children).  Node 1 is the *)
(* root.  A node is                                                         *)
(*   [k  |-> "root" | "elem" | "ns" | "attr" | "text" | "comment" | "pi",   *)
(*    p  |-> parent id (0 for the root),                                    *)
(*    sp |-> namespace URI (characters; <<>> = no namespace),               *)
(*    lo |-> local name | namespace prefix | PI target (characters),        *)
(*    v  |-> attribute value | namespace URI | text | comment | PI data]    *)
(***************************************************************************)
EXTENDS Integers, Sequences, FiniteSets, SequencesExt

TreeKinds == {"root", "elem", "text", "comment", "pi"}
Ids(d) == 1..Len(d)
IsTree(d, n) == d[n].k \in TreeKinds

Children(d, n) == {m \in Ids(d) : d[m].p = n /\ IsTree(d, m)}
AttrsOf(d, n) == {m \in Ids(d) : d[m].p = n /\ d[m].k = "attr"}
NsOf(d, n) == {m \in Ids(d) : d[m].p = n /\ d[m].k = "ns"}
ParentOf(d, n) == IF d[n].p = 0 THEN {} ELSE {d[n].p}

RECURSIVE Anc(_, _)
Anc(d, n) == IF d[n].p = 0 THEN {} ELSE {d[n].p} \cup Anc(d, d[n].p)
\* descendants are tree nodes only (attributes and namespace nodes are not children)
Desc(d, n) == {m \in Ids(d) : IsTree(d, m) /\ n \in Anc(d, m)}
Following(d, n) == {m \in Ids(d) : m > n /\ IsTree(d, m) /\ m \notin Desc(d, n)}
Preceding(d, n) == {m \in Ids(d) : m < n /\ IsTree(d, m) /\ m \notin Anc(d, n)}
FollowingSibling(d, n) == IF ~IsTree(d, n) THEN {} ELSE {m \in Ids(d) : m > n /\ IsTree(d, m) /\ d[m].p = d[n].p /\ d[n].p # 0}
PrecedingSibling(d, n) == IF ~IsTree(d, n) THEN {} ELSE {m \in Ids(d) : m < n /\ IsTree(d, m) /\ d[m].p = d[n].p /\ d[n].p # 0}

AxisNames == {"ancestor", "ancestor-or-self", "attribute", "child", "descendant", "descendant-or-self",
              "following", "following-sibling", "namespace", "parent", "preceding", "preceding-sibling", "self"}
ReverseAxes == {"ancestor", "ancestor-or-self", "preceding", "preceding-sibling"}

Axis(d, ax, n) ==
  CASE ax = "ancestor" -> Anc(d, n)
    [] ax = "ancestor-or-self" -> Anc(d, n) \cup {n}
    [] ax = "attribute" -> AttrsOf(d, n)
    [] ax = "child" -> Children(d, n)
    [] ax = "descendant" -> Desc(d, n)
    [] ax = "descendant-or-self" -> Desc(d, n) \cup {n}
    [] ax = "following" -> Following(d, n)
    [] ax = "following-sibling" -> FollowingSibling(d, n)
    [] ax = "namespace" -> NsOf(d, n)
    [] ax = "parent" -> ParentOf(d, n)
    [] ax = "preceding" -> Preceding(d, n)
    [] ax = "preceding-sibling" -> PrecedingSibling(d, n)
    [] ax = "self" -> {n}

Asc(S) == SetToSortSeq(S, LAMBDA a, b : a < b)
Dsc(S) == SetToSortSeq(S, LAMBDA a, b : a > b)
\* the nodes of an axis in proximity order (position() = index)
AxisSeq(d, ax, n) == IF ax \in ReverseAxes THEN Dsc(Axis(d, ax, n)) ELSE Asc(Axis(d, ax, n))

Principal(ax) == IF ax = "attribute" THEN "attr" ELSE IF ax = "namespace" THEN "ns" ELSE "elem"

RECURSIVE Flatten(_)
Flatten(ss) == IF ss = <<>> THEN <<>> ELSE Head(ss) \o Flatten(Tail(ss))
\* string-value (section 5)
StringValue(d, n) ==
  IF d[n].k \in {"root", "elem"}
  THEN LET ts == Asc({m \in Desc(d, n) : d[m].k = "text"}) IN Flatten([i \in 1..Len(ts) |-> d[ts[i]].v])
  ELSE d[n].v

MinOf(S) == CHOOSE x \in S : \A y \in S : x <= y

(***************************************************************************)
(* Well-formedness of a document in this representation                    *)
(***************************************************************************)
WellFormed(d) ==
  /\ Len(d) >= 1 /\ d[1].k = "root" /\ d[1].p = 0
  /\ \A n \in 2..Len(d) : /\ d[n].k # "root"
                          /\ d[n].p \in 1..(n - 1)
                          /\ d[d[n].p].k \in {"root", "elem"}
                          /\ (d[n].k = "attr" => d[d[n].p].k = "elem")
                          \* (namespace nodes on the root: not in the XPath data model, but the store accepts them from a
                          \*  parser that seeds in-scope bindings before the first element - see StoreFn.tla - and they are inherited)
                          /\ (d[n].k = "ns" => d[d[n].p].k \in {"elem", "root"})
  \* document order: a node's namespace nodes, then attributes, then children, and a
  \* subtree is contiguous: every node between a node and one of its descendants
  \* (or attributes / namespace nodes) belongs to that node as well
  /\ \A n \in Ids(d), m \in Ids(d) : (m > n /\ n \in Anc(d, m)) => \A x \in (n + 1)..m : n \in Anc(d, x)
  /\ \A e \in Ids(d) : \A a \in NsOf(d, e), b \in AttrsOf(d, e) \cup Children(d, e) : a < b
  /\ \A e \in Ids(d) : \A a \in AttrsOf(d, e), b \in Children(d, e) : a < b
=============================================================================
