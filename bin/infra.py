class Infra(Exception):
    """infrastructure failure: no verdict (exit 2)"""
