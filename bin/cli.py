"""Driving the real xsel command for C14 (worker pool) and C20 (output)."""
import json, os, subprocess, re, shutil, random, hashlib


def write_mixed(dirpath, nf):
    """files of all three types whose parsers have per-document state worth racing on: XML with different namespace
    declarations on many elements, JSON with many different numbers, HTML with many different attributes"""
    os.makedirs(dirpath, exist_ok=True)
    paths = []
    for i in range(1, nf + 1):
        kind = ("xml", "json", "html")[i % 3]
        p = os.path.join(dirpath, "f%d.%s" % (i, kind))
        if kind == "xml":
            body = "".join('<a xmlns:p%d="urn:p%d-%d" xmlns:q="urn:q%d" n="%d">v%d_%d</a>' % (i, i, k, i * 1000 + k, k, i, k) for k in range(1, 120))
            text = '<r xmlns:d%d="urn:d%d">%s</r>' % (i, i, body)
        elif kind == "json":
            text = json.dumps({"r": [{"a": i * 11111.25 + k, "b": [k * 0.5, -i * k, 1e21 + i]} for k in range(1, 200)]})
        else:
            text = "<!DOCTYPE html><html><body>%s</body></html>" % "".join('<a id="i%d_%d" href="/f%d/%d" data-k="%d">t%d_%d</a>' % (i, k, i, k, k, i, k) for k in range(1, 150))
        open(p, "w").write(text)
        paths.append(p)
    return paths


def write_files(dirpath, nf, prints, big=False):
    """f1.xml .. fNF.xml; files in `prints` contain <a> elements (two records each under -a)"""
    if big == "mixed":
        return write_mixed(dirpath, nf)
    os.makedirs(dirpath, exist_ok=True)
    paths = []
    for i in range(1, nf + 1):
        p = os.path.join(dirpath, "f%d.xml" % i)
        # big: True = 39 records; an integer = that many records with a 48-character payload (blocks of several hundred KiB)
        if big is True or not big:
            body = "".join("<a>v%d_%d</a>" % (i, k) for k in range(1, (40 if big else 3))) if i in prints else "<b>none</b>"
        else:
            body = "".join("<a>v%d_%d_%s</a>" % (i, k, "x" * 48) for k in range(1, int(big) + 1)) if i in prints else "<b>none</b>"
        open(p, "w").write("<r>%s</r>" % body)
        paths.append(p)
    return paths


def run_cli(binary, args, env=None, timeout=60, cwd=None):
    e = dict(os.environ)
    for k in list(e):
        if k.startswith("XSEL_VERIF_"):
            del e[k]
    e.setdefault("GORACE", "halt_on_error=0 atexit_sleep_ms=0 exitcode=0")
    e.update(env or {})
    p = subprocess.run([binary] + args, capture_output=True, text=True, timeout=timeout, env=e, cwd=cwd)
    return p


def blocks(stdout):
    """split stdout into maximal runs of lines with the same 'path: ' prefix"""
    out = []
    for line in stdout.splitlines():
        m = re.match(r"^(.*?\.(?:xml|json|html|txt)): ", line)
        key = m.group(1) if m else None
        if out and out[-1][0] == key:
            out[-1][1].append(line)
        else:
            out.append((key, [line]))
    return out


def compare_blocks(ref_stdout, got_stdout):
    """-c N must print exactly the per-file blocks of -c 1, each contiguous, in some order"""
    ref = {}
    for k, lines in blocks(ref_stdout):
        if k in ref:
            return "reference output itself has a split block for %s" % k
        ref[k] = lines
    seen = {}
    for k, lines in blocks(got_stdout):
        if k in seen:
            return "block of %s is not contiguous (appears twice)" % k
        seen[k] = lines
    if set(seen) != set(ref):
        return "files printed differ: only in -c 1: %s; only in -c N: %s" % (sorted(set(ref) - set(seen), key=str), sorted(set(seen) - set(ref), key=str))
    for k in ref:
        if ref[k] != seen[k]:
            return "block of %s differs: %r vs %r" % (k, ref[k][:3], seen[k][:3])
    return None


def parse_hook_trace(path, filemap):
    evs = []
    gave_up = False
    if not os.path.exists(path):
        return evs, gave_up
    for l in open(path).read().splitlines():
        parts = l.split(" ")
        if len(parts) < 2:
            continue
        if "sched-gave-up" in l:
            gave_up = True
        f = filemap.get(parts[2], 0) if len(parts) > 2 and parts[2] else 0
        evs.append({"point": parts[1], "f": f})
    return evs, gave_up
