"""Per-property pipelines for bin/check.  Each entry: run(run, tier) drives the stages;
rule/assumptions/exhaustive feed the evidence file."""

VALUE_ASPECTS = {"value", "unexpected-error", "error-expected", "panic", "build", "tree", "nil-nil"}
ORDER_ASPECTS = {"order", "tree"}   # tree: positions not unique / not increasing, wrong parent - what "document order" rests on

BASE_ASSUME = [
    "TLC 1.8.0 and the CommunityModules Json/IOUtils/SequencesExt modules are correct",
    "the transcription of XPath 1.0 / XML Namespaces into /verif/spec (cross-checked by the MC_* invariants) is faithful",
    "the Go harness faithfully renders ASTs to XPath text, builds the abstract document through a scripted parser.Parser and projects cursors (pointer identity) back to node ids",
]

Q = lambda tier, q, t: q if tier == "quick" else t


def c01(run, tier):
    # 1. design level: the axis laws of the property on every reachable document
    cfg = run.cfg("MC_C01.cfg", {"MaxNodes": Q(tier, 5, 6)}, "mc.cfg")
    ok, out = run.tlc_mc("MC_C01", cfg, "axis-laws", timeout=Q(tier, 1500, 3000))
    if not ok:
        raise_spec(run, "MC_C01 invariant violated", out)
    # 2. spec -> code: every (document, context node, axis, node test)
    cfg = run.cfg("Gen_C01.cfg", {"MaxNodes": Q(tier, 4, 5)}, "gen.cfg")
    rep = run.tlc_gen_replay("MC_C01", cfg, "steps", timeout=Q(tier, 1500, 3000))
    run.absorb(rep, VALUE_ASPECTS)
    cfg = run.cfg("Gen_C01.cfg", {"MaxNodes": Q(tier, 4, 5), "EmitFam": '"C01two"'}, "gen2.cfg")
    rep = run.tlc_gen_replay("MC_C01", cfg, "two-steps", timeout=Q(tier, 1500, 3000))
    run.absorb(rep, VALUE_ASPECTS)
    fixed_two_steps(run, VALUE_ASPECTS)
    # 3. code -> spec: random larger documents and multi-step paths, recorded and judged by Trace_Xsel
    for i in range(Q(tier, 1, 4)):
        run.trace_validate(["-fam", "paths", "-n", str(Q(tier, 2500, 20000)), "-sub", str(i)], "paths%d" % i)


def scale_family(run, fam, label, race=False):
    """Trace_Scale.tla: regular documents far larger / deeper than TLC enumerates (sizes around powers of two); the trace
    specification knows the value of every query of the pool as a closed form in the size"""
    import os
    t = os.path.join(run.work, "scale.%s.ndjson" % fam)
    env = {"GORACE": "halt_on_error=0 atexit_sleep_ms=0 exitcode=0"} if race else None
    p = run.harness_cmd(["scale-record", "-fam", fam, "-out", t], "scale-" + fam, timeout=1800, race=race, env=env)
    fatal = "fatal error: concurrent map" in p.stderr
    if (race and "DATA RACE" in p.stderr) or fatal:
        keep = os.path.join(run.root, "replays", run.pid)
        os.makedirs(keep, exist_ok=True)
        dst = os.path.join(keep, "race-%s.txt" % fam)
        open(dst, "w").write(p.stderr[-20000:])
        run.violations.append({"aspect": "race", "fam": "scale." + fam, "text": "", "detail": ("Go runtime: fatal error: concurrent map access in the library" if fatal and "DATA RACE" not in p.stderr else "Go race detector: " + " | ".join(p.stderr.splitlines()[:8])[:400]), "replay": dst})
        run.viol_total = getattr(run, "viol_total", 0) + 1
        if fatal:
            return      # the Go runtime stopped the process (unsynchronised map access in the library): that is the verdict, there is no trace
    if p.returncode != 0:
        from infra import Infra
        raise Infra("scale-record failed: " + (p.stdout + p.stderr)[-800:])
    run.judge_trace(t, "Trace_Scale", label, "scale." + fam, workers=1, timeout=1800)


def fixed_two_steps(run, aspects):
    """MC_Fixed: every pair of axes from every node of one larger hand-written document (elements with two attributes and two
    namespace nodes, nested): the law 'a two-step path is the union over the first step' is checked by TLC, the cases are replayed"""
    rep = run.tlc_gen_replay("MC_Fixed", run.cfg("MC_Fixed.cfg", {}, "fixed.cfg"), "fixed-two-steps", timeout=1800)
    run.absorb(rep, aspects)


def paths_family(run, tier, fam, mc_cfg, order, value, trace_fam, mc_nodes, gen_nodes):
    scale = '"%s"' % Q(tier, "small", "full")
    cfg = run.cfg(mc_cfg, {"MaxNodes": mc_nodes, "Scale": scale}, "mc.cfg")
    ok, out = run.tlc_mc("MC_Paths", cfg, "laws", timeout=Q(tier, 1500, 3000))
    if not ok:
        raise_spec(run, "MC_Paths invariant violated", out)
    cfg = run.cfg("Gen_Paths.cfg", {"MaxNodes": gen_nodes, "Family": '"%s"' % fam, "Scale": scale}, "gen.cfg")
    rep = run.tlc_gen_replay("MC_Paths", cfg, fam, timeout=Q(tier, 1500, 3000))
    aspects = set()
    if value:
        aspects |= VALUE_ASPECTS
    if order:
        aspects |= ORDER_ASPECTS
    run.absorb(rep, aspects)
    for i in range(Q(tier, 1, 4)):
        run.trace_validate(["-fam", trace_fam, "-n", str(Q(tier, 2500, 20000)), "-sub", str(i)], "%s%d" % (trace_fam, i),
                           order_aspect=order, value_aspect=value)


def c02(run, tier):
    paths_family(run, tier, "C02", "MC_Paths.cfg", False, True, "preds", Q(tier, 5, 6), Q(tier, 5, 6))


def c03(run, tier):
    paths_family(run, tier, "C03", "MC_C03.cfg", True, False, "paths", Q(tier, 4, 5), Q(tier, 5, 6))
    # the C01 step cases judged for order / duplicates as well
    cfg = run.cfg("Gen_C01.cfg", {"MaxNodes": Q(tier, 4, 5)}, "gen01.cfg")
    rep = run.tlc_gen_replay("MC_C01", cfg, "steps", timeout=Q(tier, 1500, 3000))
    run.absorb(rep, ORDER_ASPECTS)
    cfg = run.cfg("Gen_C01.cfg", {"MaxNodes": Q(tier, 3, 4), "EmitFam": '"C01two"'}, "gen01two.cfg")
    rep = run.tlc_gen_replay("MC_C01", cfg, "two-steps", timeout=Q(tier, 1500, 3000))
    run.absorb(rep, ORDER_ASPECTS)
    fixed_two_steps(run, ORDER_ASPECTS)
    scale_family(run, "docs", "large-documents")
    # namespace nodes of start tags that declare many prefixes, the xml prefix explicitly among them: all distinct, each at its own position
    scale_family(run, "nsdecl", "namespace-declarations")


def c18(run, tier):
    paths_family(run, tier, "C18", "MC_C18.cfg", False, True, "paths", Q(tier, 5, 6), Q(tier, 5, 6))
    fixed_two_steps(run, VALUE_ASPECTS)
    # a struct tag is a sub-query from the node the struct is filled from - context position 1, size 1, whatever slice the struct is
    # an element of (MC_Unmarshal: tags position() / last() / relative and absolute paths in slice elements, nested and embedded members)
    rep = run.tlc_gen_replay("MC_Unmarshal", run.cfg("MC_Unmarshal.cfg", {}, "gen.unmarshal.cfg"), "unmarshal-subqueries", timeout=1800)
    run.absorb(rep, VALUE_ASPECTS)


def values_family(run, tier, fam, overrides=None):
    ov = {"Family": '"%s"' % fam}
    ov.update(overrides or {})
    cfg = run.cfg("MC_Values.cfg", ov, "gen.%s.cfg" % fam)
    # one TLC run checks the family's laws on the specification and generates the cases
    rep = run.tlc_gen_replay("MC_Values", cfg, fam, timeout=Q(tier, 1500, 3000))
    run.absorb(rep, VALUE_ASPECTS)


def values_traces(run, tier):
    for i in range(Q(tier, 1, 4)):
        run.trace_validate(["-fam", "values", "-n", str(Q(tier, 2500, 20000)), "-sub", str(i)], "values%d" % i)


def c04(run, tier):
    values_family(run, tier, "C04n")
    values_family(run, tier, "C04v")
    values_family(run, tier, "C04s", {"StrLen": Q(tier, 3, 4)})
    cfg = run.cfg("Gen_C01.cfg", {"MaxNodes": Q(tier, 4, 5), "EmitFam": '"C04"'}, "gen04.cfg")
    rep = run.tlc_gen_replay("MC_C01", cfg, "nodes", timeout=Q(tier, 1500, 3000))
    run.absorb(rep, VALUE_ASPECTS)
    fixed_two_steps(run, VALUE_ASPECTS)   # incl. the string-values of a document nested 18 levels deep (family C04.deep)
    scale_family(run, "deepxml", "deep-string-values")   # ... and of documents nested up to 1000 levels deep
    values_traces(run, tier)


def c05(run, tier):
    values_family(run, tier, "C05")
    values_traces(run, tier)


def c06(run, tier):
    values_family(run, tier, "C06")
    values_traces(run, tier)


def c07(run, tier):
    values_family(run, tier, "C07u", {"StrLen": Q(tier, 4, 5)})
    values_family(run, tier, "C07b")
    values_family(run, tier, "C07t")
    values_family(run, tier, "C07s")
    # the string functions applied to NODES (zero-argument forms, parent / ancestor / root arguments) from every node of every small
    # document: they work on string-values - text of descendants, no comments, no processing instructions
    cfg = run.cfg("Gen_C01.cfg", {"MaxNodes": Q(tier, 4, 5), "EmitFam": '"C04"'}, "gen04.cfg")
    rep = run.tlc_gen_replay("MC_C01", cfg, "nodes", timeout=Q(tier, 1500, 3000))
    run.absorb(rep, VALUE_ASPECTS)
    values_traces(run, tier)


def c10(run, tier):
    import os
    # spec -> code: every conforming event stream within the bound, fed to the real store; the snapshots
    # are judged by Trace_Store (the machine's own invariants are checked in the same TLC run)
    cfg = run.cfg("MC_Store.cfg", {"MaxEvents": Q(tier, 6, 7)}, "gen.cfg")
    trace = os.path.join(run.work, "store.ndjson")
    rep = run.tlc_gen_replay("MC_Store", cfg, "events", harness_args=["-out", trace], timeout=Q(tier, 1500, 3000))
    run.judge_trace(trace, "Trace_Store", "tlc-streams", "C10.store", timeout=Q(tier, 1500, 3000))
    # code -> spec: seeded random larger streams (redundant redeclarations, surplus End, late nodes)
    t2 = os.path.join(run.work, "store-random.ndjson")
    p = run.harness_cmd(["store-record", "-n", str(Q(tier, 400, 4000)), "-out", t2], "store-record")
    if p.returncode != 0:
        from infra import Infra
        raise Infra("store-record failed: " + p.stderr[-1000:])
    run.judge_trace(t2, "Trace_Store", "random-streams", "C10.store", timeout=Q(tier, 1500, 3000))
    # the same with 8 goroutines building trees at once (race-built): a tree holds its own stream's nodes and namespaces only
    t2c = os.path.join(run.work, "store-concurrent.ndjson")
    p = run.harness_cmd(["store-record", "-n", str(Q(tier, 400, 3000)), "-sub", "7", "-out", t2c], "store-record-concurrent", race=True,
                        env={"VERIF_PARSE_CONC": "8", "GORACE": "halt_on_error=0 atexit_sleep_ms=0 exitcode=0"})
    if "DATA RACE" in p.stderr or "fatal error: concurrent map" in p.stderr:
        keep = os.path.join(run.root, "replays", run.pid)
        os.makedirs(keep, exist_ok=True)
        dst = os.path.join(keep, "race-store-concurrent.txt")
        open(dst, "w").write(p.stderr[-20000:])
        run.violations.append({"aspect": "race", "fam": "C10.store", "text": "", "detail": "Go race detector while 8 goroutines build trees at once: " +
                               " | ".join(p.stderr.splitlines()[:8])[:400], "replay": dst})
        run.viol_total = getattr(run, "viol_total", 0) + 1
    if p.returncode != 0 and "fatal error: concurrent map" not in p.stderr:
        from infra import Infra
        raise Infra("store-record (concurrent) failed: " + p.stderr[-1000:])
    if p.returncode == 0:
        run.judge_trace(t2c, "Trace_Store", "concurrent-streams", "C10.store", timeout=Q(tier, 1500, 3000))
    # stack space: long flat streams in a child process, call depth sampled inside Pull()
    t3 = os.path.join(run.work, "flat.ndjson")
    p = run.harness_cmd(["flat", "-n", str(Q(tier, 100000, 1000000)), "-out", t3], "flat", timeout=1800)
    if p.returncode != 0:
        from infra import Infra
        raise Infra("flat driver failed: " + p.stderr[-1000:])
    run.judge_trace(t3, "Trace_Store", "flat", "C10.flat", workers=1)


def c10_replay(run, path):
    import json, os
    rc = json.load(open(path))
    t = os.path.join(run.work, "replay.ndjson")
    run.build_harness()
    if rc["fam"] == "C10.flat":
        p = run.harness_cmd(["flat", "-n", str(rc["line"]["n"]), "-out", t], "flat")
    else:
        ev = os.path.join(run.work, "evs.json")
        json.dump(rc["line"]["evs"], open(ev, "w"))
        p = run.harness_cmd(["store-one", "-out", t, ev], "store-one")
    bad = run.judge_trace(t, "Trace_Store", "replay", rc["fam"], workers=1)
    if bad:
        print("VIOLATION property=C10 replay=%s" % path)
        return 1
    print("not reproduced:", path)
    return 0


def names_family(run, tier, fam, base_cfg):
    nodes = Q(tier, 4, 5) if fam == "C11" else Q(tier, 5, 6)
    cfg = run.cfg(base_cfg, {"Family": '"%s"' % fam, "MaxNodes": nodes}, "gen.%s.cfg" % fam)
    rep = run.tlc_gen_replay("MC_Names", cfg, fam, timeout=Q(tier, 1500, 3000))
    run.absorb(rep, VALUE_ASPECTS)


def c11(run, tier):
    names_family(run, tier, "C11", "MC_Names.cfg")
    # the bindings must also reach the sub-queries of Unmarshal (struct tags using the prefix, the variable and the user functions of the call)
    rep = run.tlc_gen_replay("MC_Unmarshal", run.cfg("MC_Unmarshal.cfg", {}, "gen.unmarshal.cfg"), "unmarshal-bindings", timeout=1800)
    run.absorb(rep, VALUE_ASPECTS)
    for i in range(Q(tier, 1, 4)):
        run.trace_validate(["-fam", "bindings", "-n", str(Q(tier, 2500, 20000)), "-sub", str(i)], "bindings%d" % i)


def c12(run, tier):
    names_family(run, tier, "C12n", "MC_Names.cfg")
    names_family(run, tier, "C12l", "MC_Lang.cfg")
    for i in range(Q(tier, 1, 4)):
        run.trace_validate(["-fam", "values", "-n", str(Q(tier, 2500, 20000)), "-sub", str(100 + i)], "values%d" % i)


def c13(run, tier):
    import os
    # non-vacuity: the model of the repaired defect (union in place) must violate the frame property
    cfg = run.cfg("MC_Xsel.cfg", {"LegacyUnionInPlace": "TRUE", "EmitOn": "FALSE", "MaxSteps": 3}, "legacy.cfg")
    ok, out = run.tlc_mc("Xsel", cfg, "legacy-must-fail", expect_violation=True, timeout=300)
    if ok:
        raise_spec(run, "Xsel with LegacyUnionInPlace did not violate Frame (vacuous model)", out)
    # spec -> code: every history of MaxSteps calls (Frame / HeldStable / SerialValue checked in the same run)
    cfg = run.cfg("MC_Xsel.cfg", {"MaxSteps": Q(tier, 3, 4)}, "gen.cfg")
    trace = os.path.join(run.work, "hist.ndjson")
    if tier != "quick":
        # ~900,000 histories of four calls: TLC checks Frame / HeldStable / SerialValue on all of them; one in eight is executed
        # on the real code and judged by the trace specification (about 30 minutes of trace judging otherwise)
        run.env["VERIF_HIST_SAMPLE"] = "8"
        run.notes.append("thorough: one history in eight (hash of the history and the seed) is executed and judged")
        run.exhaustive = False
    run.tlc_gen_replay("Xsel", cfg, "histories", harness_args=["-out", trace], timeout=Q(tier, 1500, 3000))
    run.env.pop("VERIF_HIST_SAMPLE", None)
    run.trace_validate([], "histories", frame_aspect=True, order_aspect=True, trace_file=trace, timeout=Q(tier, 1500, 3000))
    # code -> spec: long random sessions over shared cursors, compiled expressions and result slices
    for i in range(Q(tier, 1, 4)):
        run.trace_validate(["-n", str(Q(tier, 2500, 15000)), "-sub", str(i)], "sessions%d" % i, frame_aspect=True, order_aspect=True, record_cmd="session-record")
    # what BuildExpr returns for a string does not depend on the strings built before it: the string-function family builds, in one
    # process, thousands of expressions that differ only inside their literals (every string of <= 3 characters over an alphabet
    # with several kinds of white space) and every value is judged
    cfg = run.cfg("MC_Values.cfg", {"Family": '"C07u"'}, "gen.literals.cfg")
    rep = run.tlc_gen_replay("MC_Values", cfg, "literal-history", timeout=Q(tier, 1500, 3000), harness_args=["-workers", "1"])
    run.absorb(rep, VALUE_ASPECTS)
    # repeats agree also on documents of tens of thousands of nodes (every query of the scale pool is evaluated twice)
    scale_family(run, "docs", "large-documents")
    # ... and on sums of decimal fractions and of numbers of very different magnitude: 60 / 400 executions, one bit pattern
    scale_family(run, "repeat", "repeated-evaluation")
    # what Unmarshal fills depends on the target type and the nodes, not on the calls made before: all calls of MC_Unmarshal in one
    # process (among them two declared struct types of the same name with different tags, used one after the other)
    rep = run.tlc_gen_replay("MC_Unmarshal", run.cfg("MC_Unmarshal.cfg", {}, "gen.unmarshal.cfg"), "unmarshal-history", timeout=1800, harness_args=["-workers", "1"])
    run.absorb(rep, VALUE_ASPECTS)


def session_replay(run, path):
    """replay files of trace-judged properties: re-execute on the real code, let the trace specification judge again"""
    import json, os, subprocess
    rc = json.load(open(path))
    run.build_harness()
    if rc.get("fam") == "C19.unmarshal":
        return adapter_replay(run, path)
    if rc.get("fam") != "session":
        p = subprocess.run([run.harness, "replay-one", path], env=run.env)
        if p.returncode == 1:
            print("VIOLATION property=%s replay=%s" % (run.pid, path))
        return p.returncode
    t = os.path.join(run.work, "replay.ndjson")
    p = run.harness_cmd(["session-replay", "-out", t, path], "session-replay")
    if p.returncode != 0:
        print("cannot re-execute", path)
        return 2
    bad = run.trace_validate([], "replay", frame_aspect=True, order_aspect=True, trace_file=t)
    if bad:
        print("VIOLATION property=%s replay=%s" % (run.pid, path))
        return 1
    print("not reproduced:", path)
    return 0


def c14(run, tier):
    import os, json, subprocess, random
    import cli
    from infra import Infra
    # ---------------- library ----------------
    cfg = run.cfg("MC_Threads.cfg", {"LegacyUnionInPlace": "TRUE", "EmitOn": "FALSE", "MaxSteps": 3}, "legacy.cfg")
    ok, out = run.tlc_mc("Xsel", cfg, "legacy-must-fail", expect_violation=True, timeout=1800)
    if ok:
        raise_spec(run, "Xsel (2 threads) with LegacyUnionInPlace did not violate Frame", out)
    # workloads from the 2-thread model, run by real goroutines under the race detector
    race = run.build_harness(race=True)
    # (four steps per workload give about forty times as many workloads: the generator alone did not finish in 50 minutes, twice;
    #  the thorough tier repeats the three-step workloads 40 times each instead - the schedules vary, the workloads do not)
    cfg = run.cfg("MC_Threads.cfg", {"MaxSteps": 3, "Threads": 2}, "gen.cfg")
    saved = run.harness
    run.harness = race
    racelog = os.path.join(run.work, "race")
    run.env["GORACE"] = "log_path=%s halt_on_error=0 atexit_sleep_ms=0 exitcode=0" % racelog
    run.env["VERIF_CONC_REPS"] = str(Q(tier, 6, 40))
    try:
        rep = run.tlc_gen_replay("Xsel", cfg, "workloads", timeout=Q(tier, 1500, 3000), harness_args=["-workers", "4"])
    finally:
        run.harness = saved
    run.absorb(rep, VALUE_ASPECTS | {"frame", "order"})
    # the builtin function library under concurrency: the value families of MC_Values (every string, number and comparison
    # function with many different arguments) replayed by the race-built harness with the cases of each line evaluated by
    # 8 goroutines at once on one shared tree, compiled expressions and bindings shared; every result is still judged
    run.harness = race
    run.env["VERIF_CASE_CONC"] = "8"
    try:
        for fam in Q(tier, ["C07t", "C07b", "C06", "C05"], ["C07t", "C07b", "C07u", "C07s", "C06", "C05", "C04n", "C04s", "C04v"]):
            cfg = run.cfg("MC_Values.cfg", {"Family": '"%s"' % fam}, "conc.%s.cfg" % fam)
            rep = run.tlc_gen_replay("MC_Values", cfg, "conc-" + fam, timeout=Q(tier, 1500, 3000), harness_args=["-workers", "2"])
            run.absorb(rep, VALUE_ASPECTS)
        # ... lang() over small documents carrying xml:lang in several spellings (many different tags are folded at once)
        cfg = run.cfg("MC_Lang.cfg", {"MaxNodes": 4}, "conc.lang.cfg")
        rep = run.tlc_gen_replay("MC_Names", cfg, "conc-lang", timeout=1800, harness_args=["-workers", "4"])
        run.absorb(rep, VALUE_ASPECTS)
        # ... and the axes: every pair of axes from a node of the fixed 31-node document, the ~470 cases of a line evaluated at once
        # on a tree that was built just before - no serial warm-up, so lazily built shared state is first touched concurrently
        rep = run.tlc_gen_replay("MC_Fixed", run.cfg("MC_Fixed.cfg", {}, "conc.fixed.cfg"), "conc-axes", timeout=1800, harness_args=["-workers", "2"])
        run.absorb(rep, VALUE_ASPECTS | {"order"})
    finally:
        run.harness = saved
        del run.env["VERIF_CASE_CONC"]
    # a tree nested 20000 / 30000 levels deep walked by 32 / 48 goroutines at once (anything the evaluator sums up across
    # goroutines - depth guards, budgets - is hit here and nowhere else)
    scale_family(run, "deepconc", "deep-tree-concurrent")
    # a freshly compiled expression whose FIRST executions overlap (nothing has warmed whatever it caches lazily), race-built
    scale_family(run, "coldconc", "cold-expression-concurrent", race=True)
    import glob
    races = glob.glob(racelog + ".*")
    for rf in races[:5]:
        txt = open(rf).read()
        keep = os.path.join(run.root, "replays", run.pid)
        os.makedirs(keep, exist_ok=True)
        dst = os.path.join(keep, "race-" + os.path.basename(rf) + ".txt")
        open(dst, "w").write(txt)
        run.violations.append({"aspect": "race", "fam": "C14.workload", "text": "", "detail": "Go race detector: " + " | ".join(txt.splitlines()[:8])[:400], "replay": dst})
    run.viol_total = getattr(run, "viol_total", 0) + len(races)
    # ---------------- command-line tool ----------------
    for nf, n, conc in [(3, 2, "TRUE"), (2, 1, "FALSE"), (3, 3, "TRUE")] + Q(tier, [], [(4, 2, "TRUE"), (4, 3, "TRUE")]):
        cfg = run.cfg("CliPool.cfg", {"NF": nf, "N": n, "Conc": conc, "Prints": "{1, %d}" % nf}, "pool.%d.%d.cfg" % (nf, n))
        ok, out = run.tlc_mc("CliPool", cfg, "clipool-%d-%d" % (nf, n), timeout=1800, deadlock_check=True)
        if not ok:
            raise_spec(run, "CliPool violates its own properties", out)
    if tier == "thorough":
        apalache_pool(run)
    binary = run.build_cli(race=True)
    rng = random.Random(run.seed)
    fdir = os.path.join(run.work, "files")
    traces = {}     # config -> list of event lists
    nruns = 0

    def one_run(nf, n, prints, env, label, big=False, mode="-a", query="//a"):
        nonlocal nruns
        d = os.path.join(fdir, "%s-%d" % (label, nruns))
        paths = cli.write_files(d, nf, prints, big)
        rel = [os.path.relpath(p, d) for p in paths]
        fmap = {r: i + 1 for i, r in enumerate(rel)}
        ref = cli.run_cli(binary, ["-c", "1", mode, "-x", query] + rel, cwd=d, timeout=300)
        tr = os.path.join(d, "hook.log")
        e = dict(env)
        e["XSEL_VERIF_TRACE"] = tr
        e["GORACE"] = "halt_on_error=0 atexit_sleep_ms=0 exitcode=0"
        got = cli.run_cli(binary, ["-c", str(n), mode, "-x", query] + rel, env=e, cwd=d, timeout=300)
        nruns += 1
        run.evaluations += 1
        evs, gave = cli.parse_hook_trace(tr, fmap)
        problems = []
        if "DATA RACE" in got.stderr or "DATA RACE" in ref.stderr:
            problems.append(("race", "Go race detector reported a data race in the command: " + got.stderr[:300]))
        if got.returncode != 0:
            problems.append(("cli", "exit status %d: %s" % (got.returncode, got.stderr[:200])))
        why = cli.compare_blocks(ref.stdout, got.stdout)
        if why:
            problems.append(("blocks", "-c %d vs -c 1: %s" % (n, why)))
        for a, detail in problems:
            keep = os.path.join(run.root, "replays", run.pid)
            os.makedirs(keep, exist_ok=True)
            dst = os.path.join(keep, "cli-%s-%d.json" % (label, nruns))
            json.dump({"fam": "C14.cli", "nf": nf, "n": n, "prints": sorted(prints), "env": {k: v for k, v in env.items()}, "big": big, "mode": mode, "query": query, "why": detail}, open(dst, "w"))
            run.violations.append({"aspect": a, "fam": "C14.cli", "text": "xsel -c %d %s -x %s %s" % (n, mode, query, " ".join(rel)), "detail": detail, "replay": dst})
            run.viol_total = getattr(run, "viol_total", 0) + 1
        traces.setdefault((nf, n, n > 1, tuple(sorted(prints))), []).append(evs)
        return evs, gave

    # (a) schedules generated by TLC from CliPool, enforced by the gate hook
    sched_cfg = run.cfg("CliPoolGen.cfg", {"NF": 3, "N": 2, "Conc": "TRUE", "Prints": "{1, 3}"}, "sched.cfg")
    cmd, e, meta = run.tlc("CliPoolGen", sched_cfg, workers=1, timeout=300, simulate="num=%d" % Q(tier, 60, 600), extra=["-depth", "40", "-seed", str(run.seed)])
    p = subprocess.run(cmd, cwd=run.work, env=e, capture_output=True, text=True)
    scheds = []
    for l in p.stdout.splitlines():
        if l.startswith('"{'):
            try:
                scheds.append(json.loads(json.loads(l)))
            except Exception:
                pass
    uniq = {json.dumps(x["sched"]): x for x in scheds}
    if not uniq:
        raise Infra("TLC produced no CliPool schedules: " + run.tail(p.stdout + p.stderr))
    enforced = gave_up = 0
    for key, sc in list(uniq.items())[:Q(tier, 40, 400)]:
        d0 = os.path.join(fdir, "sched-%d" % nruns)
        os.makedirs(d0, exist_ok=True)
        sf = os.path.join(d0, "sched.txt")
        open(sf, "w").write("".join("%s %s\n" % (ev["point"], ("f%d.xml" % ev["f"]) if ev["f"] else "") for ev in sc["sched"]))
        evs, gave = one_run(3, 2, {1, 3}, {"XSEL_VERIF_SCHED": sf}, "sched")
        if gave:
            gave_up += 1
        elif [(x["point"], x["f"]) for x in evs] == [(x["point"], x["f"]) for x in sc["sched"]]:
            enforced += 1
    run.stage_info.append({"stage": "cli:tlc-schedules", "generated": len(uniq), "enforced_exactly": enforced, "gate_gave_up": gave_up})
    if sum(len(evs) for lst in traces.values() for evs in lst) == 0:
        raise Infra("the verif hooks recorded no event at all (hook build broken?)")
    if enforced == 0:
        run.notes.append("no TLC-generated schedule could be enforced: the command's events deviate from every model behaviour (see the trace verdicts)")
    # (b) seeded random yields, more files, several N
    shapes = [(4, 2, {1, 2, 4}), (5, 3, {1, 3, 5}), (6, 4, {1, 2, 3, 4, 5, 6}), (3, 1, {1, 3}), (6, 2, {2, 5})]
    for i in range(Q(tier, 40, 400)):
        nf, n, prints = shapes[i % len(shapes)]
        one_run(nf, n, prints, {"XSEL_VERIF_YIELD": str(run.seed * 1000 + i)}, "yield", big=(i % 7 == 0))
    # (c) many small files: contention on stdout and on the shared bindings
    for i in range(Q(tier, 3, 20)):
        one_run(Q(tier, 150, 400), 8, set(range(1, Q(tier, 150, 400) + 1)), {"XSEL_VERIF_YIELD": str(run.seed * 77 + i)}, "many")
    # (d) large output blocks (several hundred KiB per file, -a and -m): a block must stay contiguous and intact whatever its size
    for i in range(Q(tier, 4, 16)):
        one_run(6, 4, {1, 2, 3, 4, 5, 6}, {"XSEL_VERIF_YIELD": str(run.seed * 31 + i)}, "large", big=Q(tier, 4000, 12000), mode=("-a" if i % 2 == 0 else "-m"))
    # (e) files of all three types parsed at once: XML with different namespace declarations on every element, JSON full of
    # numbers, HTML full of attributes - whatever the parsers keep outside the single document is shared by the workers
    for i in range(Q(tier, 4, 20)):
        one_run(9, 8, set(range(1, 10)), {"XSEL_VERIF_YIELD": str(run.seed * 131 + i)}, "mixed", big="mixed", query="//a | //a/@* | //a/namespace::* | //b")
    # all hook traces are judged by Trace_CliPool, one TLC run per configuration
    for (nf, n, conc, prints), lst in traces.items():
        import hashlib
        tf = os.path.join(run.work, "cli-%d-%d-%s.ndjson" % (nf, n, hashlib.sha1(repr(prints).encode()).hexdigest()[:8]))
        with open(tf, "w") as f:
            f.write(json.dumps({"point": "config", "nf": nf, "n": n, "conc": conc, "prints": list(prints)}) + "\n")
            for k, evs in enumerate(lst):
                if k:
                    f.write(json.dumps({"point": "reset", "f": 0}) + "\n")
                for ev in evs:
                    f.write(json.dumps(ev) + "\n")
        run.judge_cli_trace(tf, "pool-%d-%d" % (nf, n), len(lst))


def c14_replay(run, path):
    import json, os, subprocess
    import cli
    if path.endswith(".txt"):
        print("a race report is a record of one execution; re-run `bin/check C14` to look for it again")
        return 2
    if path.endswith(".ndjson"):
        conf = json.loads(open(path).readline())
        rc = {"fam": "C14.cli", "nf": conf["nf"], "n": conf["n"], "prints": conf["prints"], "big": False}
    else:
        rc = json.load(open(path))
    if rc.get("fam") == "C14.workload":
        h = run.build_harness(race=True)
        e = dict(run.env, GORACE="halt_on_error=0 atexit_sleep_ms=0 exitcode=0", VERIF_CONC_REPS="200")
        p = subprocess.run([h, "replay-one", path], env=e, capture_output=True, text=True)
        print(p.stdout[-2000:])
        bad = p.returncode == 1 or "DATA RACE" in p.stderr
        if bad:
            print("VIOLATION property=C14 replay=%s" % path)
        return 1 if bad else 0
    # a command-line scenario: re-run the configuration under many yield seeds, judge traces and blocks
    binary = run.build_cli(race=True)
    nf, n, prints = rc["nf"], rc["n"], set(rc["prints"])
    evlists = []
    bad = False
    for i in range(60):
        d = os.path.join(run.work, "replay-%d" % i)
        paths = cli.write_files(d, nf, prints, rc.get("big", False))
        rel = [os.path.relpath(p, d) for p in paths]
        fmap = {r: k + 1 for k, r in enumerate(rel)}
        mode = rc.get("mode", "-a")
        query = rc.get("query", "//a")
        ref = cli.run_cli(binary, ["-c", "1", mode, "-x", query] + rel, cwd=d, timeout=300)
        tr = os.path.join(d, "hook.log")
        got = cli.run_cli(binary, ["-c", str(n), mode, "-x", query] + rel, env={"XSEL_VERIF_TRACE": tr, "XSEL_VERIF_YIELD": str(i)}, cwd=d, timeout=300)
        why = cli.compare_blocks(ref.stdout, got.stdout)
        if why or "DATA RACE" in got.stderr:
            print("REPRODUCED:", why or "data race")
            bad = True
        evlists.append(cli.parse_hook_trace(tr, fmap)[0])
    tf = os.path.join(run.work, "replay.ndjson")
    with open(tf, "w") as f:
        f.write(json.dumps({"point": "config", "nf": nf, "n": n, "conc": n > 1, "prints": sorted(prints)}) + "\n")
        for k, evs in enumerate(evlists):
            if k:
                f.write(json.dumps({"point": "reset", "f": 0}) + "\n")
            for ev in evs:
                f.write(json.dumps(ev) + "\n")
    run.judge_cli_trace(tf, "replay", len(evlists))
    if run.violations:
        bad = True
    if bad:
        print("VIOLATION property=C14 replay=%s" % path)
        return 1
    print("not reproduced:", path)
    return 0


def record_and_judge(run, cmd, args, label, replay_kind, aspects, conc=0):
    """conc > 0: the recorder reads its documents with that many goroutines at once, in the race-built harness (parsers that
    keep state outside the single document show up as data races or as trees holding another document's data)"""
    import os, json
    from infra import Infra
    t = os.path.join(run.work, "%s.ndjson" % label)
    rp = os.path.join(run.work, "%s.report.json" % label)
    env = {"VERIF_PARSE_CONC": str(conc), "GORACE": "halt_on_error=0 atexit_sleep_ms=0 exitcode=0"} if conc else None
    p = run.harness_cmd([cmd, "-out", t, "-report", rp, "-replays", os.path.join(run.root, "replays", run.pid)] + args, label, timeout=1800, race=bool(conc), env=env)
    if conc and "DATA RACE" in p.stderr:
        keep = os.path.join(run.root, "replays", run.pid)
        os.makedirs(keep, exist_ok=True)
        dst = os.path.join(keep, "race-%s.txt" % label)
        open(dst, "w").write(p.stderr[-20000:])
        run.violations.append({"aspect": "race", "fam": replay_kind, "text": "", "detail": "Go race detector while %d goroutines read documents at once: %s" %
                               (conc, " | ".join(p.stderr.splitlines()[:8])[:400]), "replay": dst})
        run.viol_total = getattr(run, "viol_total", 0) + 1
    if p.returncode != 0 or not os.path.exists(rp):
        raise Infra("%s failed: %s" % (cmd, (p.stdout + p.stderr)[-1500:]))
    rep = json.load(open(rp))
    if rep.get("infra"):
        raise Infra("%s reported infrastructure problems: %s" % (cmd, rep["infra"][:3]))
    run.absorb(rep, aspects)
    run.judge_trace(t, "Trace_Store", label, replay_kind, timeout=3000)


ADAPTER_ASPECTS = VALUE_ASPECTS | {"events"}


def c16(run, tier):
    import os
    # design level + spec -> code: the JsonAdapter machine refines the documented mapping for every value within the
    # bound (checked by TLC in the same run that emits the values); the harness renders each value (plain and with seeded
    # white space / number spellings / escapes), compares tree and Pull stream, and tries every truncation + mutations
    cfg = run.cfg("MC_Json.cfg", {"Depth": Q(tier, 2, 3), "Width": Q(tier, 2, 2)}, "gen.cfg")
    trace = os.path.join(run.work, "json.ndjson")
    rep = run.tlc_gen_replay("MC_Json", cfg, "values", harness_args=["-out", trace], timeout=Q(tier, 1500, 3000))
    run.absorb(rep, ADAPTER_ASPECTS)
    run.judge_trace(trace, "Trace_Store", "json-trees", "C16.store", timeout=1800)
    # code -> spec: random values (depth <= 4), Pull streams judged against DocEvents by the trace specification
    record_and_judge(run, "json-record", ["-n", str(Q(tier, 800, 8000))], "json-random", "C16.trace", ADAPTER_ASPECTS)
    # the same with 8 goroutines reading (different) texts at once: every tree must still be its own text's mapping
    record_and_judge(run, "json-record", ["-n", str(Q(tier, 600, 6000)), "-sub", "7"], "json-concurrent", "C16.trace", ADAPTER_ASPECTS, conc=8)
    # nesting far deeper than the model's bound (1 .. 1000 arrays around one number, with a member after the deep one)
    scale_family(run, "deepjson", "deep-nesting")


def c17(run, tier):
    import os
    cfg = run.cfg("MC_Html.cfg", {"MaxNodes": Q(tier, 5, 6)}, "gen.cfg")
    trace = os.path.join(run.work, "html.ndjson")
    rep = run.tlc_gen_replay("MC_Html", cfg, "dom-shapes", harness_args=["-out", trace], timeout=Q(tier, 1500, 3000))
    run.absorb(rep, ADAPTER_ASPECTS)
    run.judge_trace(trace, "Trace_Store", "dom-shapes", "C17.trace", timeout=1800, max_lines=120000)
    record_and_judge(run, "html-record", ["-n", str(Q(tier, 1500, 9000))], "tag-soup", "C17.trace", ADAPTER_ASPECTS)
    # the same with 8 goroutines reading (different) documents at once
    record_and_judge(run, "html-record", ["-n", str(Q(tier, 1000, 6000)), "-sub", "7"], "tag-soup-concurrent", "C17.trace", ADAPTER_ASPECTS, conc=8)


def c09(run, tier):
    import os
    runs = [("documents", {"MaxItems": Q(tier, 3, 4), "FullProduct": "FALSE", "ItemPool": '"all"'}),
            ("nesting", {"MaxItems": Q(tier, 4, 5), "FullProduct": "FALSE", "ItemPool": '"starts"'}),
            # several text nodes per document, each written in pieces (text, CDATA section, text): one node each, with its own characters
            ("text-runs", {"MaxItems": Q(tier, 5, 6), "FullProduct": "FALSE", "ItemPool": '"runs"'})]
    if tier != "quick":
        runs.append(("product", {"MaxItems": 3, "FullProduct": "TRUE", "ItemPool": '"all"'}))
    for label, ov in runs:
        cfg = run.cfg("MC_Xml.cfg", ov, "gen.%s.cfg" % label)
        trace = os.path.join(run.work, "xml.%s.ndjson" % label)
        rep = run.tlc_gen_replay("MC_Xml", cfg, label, harness_args=["-out", trace], timeout=Q(tier, 1500, 3600), heap=Q(tier, "8g", "24g"))
        run.absorb(rep, ADAPTER_ASPECTS)
        run.judge_trace(trace, "Trace_Store", "xml-trees-" + label, "C09.store", timeout=3000, max_lines=150000)


def c19(run, tier):
    cfg = run.cfg("MC_Unmarshal.cfg", {}, "gen.cfg")
    rep = run.tlc_gen_replay("MC_Unmarshal", cfg, "calls", timeout=1800)
    run.absorb(rep, VALUE_ASPECTS)
    # code -> spec: sessions that mix Exec, re-slicing and Unmarshal with randomly built target types (reflect) on random
    # documents; every Unmarshal event is judged by Trace_Xsel with Unmarshal.tla (filled value or demanded error, frame condition)
    for i in range(Q(tier, 2, 6)):
        run.trace_validate(["-n", str(Q(tier, 3000, 15000)), "-sub", str(50 + i)], "unmarshal-sessions%d" % i, frame_aspect=True, record_cmd="session-record")


def c20(run, tier):
    import os
    binary = run.build_cli(race=False)
    work = os.path.join(run.work, "cli")
    os.makedirs(work, exist_ok=True)
    run.env["XSEL_CLI"] = binary
    run.env["XSEL_CLI_WORK"] = work
    cfg = run.cfg("MC_Cli.cfg", {}, "gen.cfg")
    rep = run.tlc_gen_replay("MC_Cli", cfg, "runs", timeout=1800, harness_args=["-workers", "8"])
    run.absorb(rep, VALUE_ASPECTS | {"output", "diag", "cli"})
    # code -> spec: random argument trees (nested directories, every file class, symbolic links, standard input) and random flags
    # incl. -t html; per entry the prefixed stdout lines, the diagnostics and the shape of the library's result are logged and
    # Trace_Cli.tla judges each run against CliOutput.tla
    trace = os.path.join(run.work, "cli-runs.ndjson")
    run.harness_cmd(["cli-record", "-n", str(Q(tier, 400, 4000)), "-out", trace], "cli-record")
    run.judge_trace(trace, "Trace_Cli", "cli-runs", "C20.trace", workers=1, timeout=1800)


def c20_replay(run, path):
    import os, subprocess
    run.build_harness()
    binary = run.build_cli(race=False)
    work = os.path.join(run.work, "cli")
    os.makedirs(work, exist_ok=True)
    e = dict(run.env, XSEL_CLI=binary, XSEL_CLI_WORK=work)
    p = subprocess.run([run.harness, "replay-one", path], env=e)
    if p.returncode == 1:
        print("VIOLATION property=C20 replay=%s" % path)
    return p.returncode


def c08(run, tier):
    for alpha, n in [("core", Q(tier, 3, 4)), ("ops", Q(tier, 3, 4)), ("paths", Q(tier, 3, 4)), ("lex", Q(tier, 3, 4)), ("split", 4)]:
        cfg = run.cfg("MC_Grammar.cfg", {"Alphabet": '"%s"' % alpha, "MaxLen": n}, "gen.%s.cfg" % alpha)
        rep = run.tlc_gen_replay("MC_Grammar", cfg, alpha, timeout=Q(tier, 1500, 3600), harness_args=["-workers", "1"])
        run.absorb(rep, VALUE_ASPECTS | {"accepts-invalid"})
    for i in range(Q(tier, 1, 4)):
        run.trace_validate(["-fam", "mixed", "-n", str(Q(tier, 2500, 20000)), "-sub", str(200 + i)], "renderings%d" % i)


def c15(run, tier):
    import os, json
    from infra import Infra
    # structured inputs from the specification's generators: every lexeme string (accepted and rejected) and every
    # Unmarshal call are replayed here for totality only (panic / nil-nil); malformed documents are part of C09/C16
    for alpha in ["core", "lex"]:
        cfg = run.cfg("MC_Grammar.cfg", {"Alphabet": '"%s"' % alpha, "MaxLen": Q(tier, 3, 4)}, "gen.%s.cfg" % alpha)
        rep = run.tlc_gen_replay("MC_Grammar", cfg, alpha, timeout=Q(tier, 1500, 3600), harness_args=["-workers", "1"])
        run.absorb(rep, {"panic", "nil-nil"})
    cfg = run.cfg("MC_Unmarshal.cfg", {}, "genu.cfg")
    rep = run.tlc_gen_replay("MC_Unmarshal", cfg, "unmarshal", timeout=1800)
    run.absorb(rep, {"panic", "nil-nil"})
    # seeded mutation fuzzing of every public entry point, in child processes
    out = os.path.join(run.work, "fuzz.json")
    p = run.harness_cmd(["fuzz", "-n", str(Q(tier, 200000, 4000000)), "-workers", "16", "-report", out], "fuzz", timeout=Q(tier, 1800, 7200))
    if p.returncode != 0 or not os.path.exists(out):
        raise Infra("fuzz driver failed: " + (p.stdout + p.stderr)[-1500:])
    fz = json.load(open(out))
    if fz["inputs"] == 0:
        raise Infra("fuzz driver produced no inputs")
    run.evaluations += fz["inputs"]
    run.distinct_nontrivial += fz["nontrivial"]
    run.stage_info.append({"stage": "fuzz", "inputs": fz["inputs"], "distinct": fz["distinct"], "got_past_first_stage": fz["nontrivial"], "problems": fz["kinds"]})
    for s in (fz.get("samples") or [])[:2]:
        run.samples.append({"fuzz_input": s})
    rdir = os.path.join(run.root, "replays", run.pid)
    for i, pr in enumerate(fz.get("problems") or []):
        os.makedirs(rdir, exist_ok=True)
        path = os.path.join(rdir, "fuzz-%d.json" % i)
        json.dump(dict(pr, fam="C15.fuzz"), open(path, "w"))
        run.violations.append({"aspect": pr["kind"], "fam": "C15.fuzz", "text": pr["entry"] + ": " + pr["input"][:200], "detail": pr["detail"][:400], "replay": path})
    run.viol_total = getattr(run, "viol_total", 0) + sum(fz["kinds"].values())


def c15_replay(run, path):
    import json, subprocess
    rc = json.load(open(path))
    run.build_harness()
    if rc.get("fam") != "C15.fuzz":
        p = subprocess.run([run.harness, "replay-one", path], env=run.env)
        return p.returncode
    p = subprocess.run([run.harness, "fuzz-one", path], env=run.env)
    if p.returncode == 1:
        print("VIOLATION property=C15 replay=%s" % path)
    return p.returncode


def adapter_replay(run, path):
    import json, os, subprocess
    rc = json.load(open(path))
    run.build_harness()
    fam = rc.get("fam", "")
    if fam in ("C16.json", "C09.xml", "C19.unmarshal", "C08.tokens"):
        p = subprocess.run([run.harness, "replay-one", path], env=run.env)
        if p.returncode == 1:
            print("VIOLATION property=%s replay=%s" % (run.pid, path))
        return p.returncode
    t = os.path.join(run.work, "replay.ndjson")
    if fam.startswith("C17"):
        p = run.harness_cmd(["html-one", "-out", t, "-report", os.path.join(run.work, "r.json"), path], "html-one")
        rep = json.load(open(os.path.join(run.work, "r.json")))
        run.absorb(rep, ADAPTER_ASPECTS)
    else:
        line = rc.get("line", {})
        open(t, "w").write(json.dumps(line) + "\n")
    bad = run.judge_trace(t, "Trace_Store", "replay", fam, workers=1) if os.path.getsize(t) else 0
    if bad or run.violations:
        print("VIOLATION property=%s replay=%s" % (run.pid, path))
        return 1
    print("not reproduced:", path)
    return 0


def apalache_pool(run):
    """CliPoolInd.tla: Apalache discharges an inductive invariant of the worker pool (5 files, -c 3, goroutine workers; and -c 1,
    inline workers) - Init => IndInv, IndInv /\\ Next => IndInv' - so the pool's safety properties hold in every reachable state
    without enumeration (TLC enumerates up to 4 files).  Probes: two states must be satisfiable under IndInv (non-vacuity), and a
    pool without the semaphore guard must NOT be inductive.  A timeout is recorded and skipped (this step adds assurance about the
    specification; verdicts about the code come from the trace stages)."""
    import subprocess, shutil, os, time
    if not shutil.which("apalache-mc"):
        run.notes.append("apalache-mc not found: inductive-invariant step skipped")
        return
    d = os.path.join(run.work, "apalache")
    os.makedirs(d, exist_ok=True)
    # (CliPoolInd.tla lives in spec/apalache: it extends Apalache's own module, which SANY / TLC do not know)
    shutil.copy(os.path.join(run.root, "spec", "CliPool.tla"), d)
    shutil.copy(os.path.join(run.root, "spec", "apalache", "CliPoolInd.tla"), d)
    def ap(cinit, init, inv, length, cwd=d, timeout=900):
        t = time.time()
        try:
            p = subprocess.run(["apalache-mc", "check", "--cinit=" + cinit, "--init=" + init, "--inv=" + inv, "--length=%d" % length, "--out-dir=" + os.path.join(cwd, "out"), "CliPoolInd.tla"],
                               cwd=cwd, capture_output=True, text=True, timeout=timeout)
        except subprocess.TimeoutExpired:
            return None, ""
        out = p.stdout + p.stderr
        res = "ok" if "The outcome is: NoError" in out else ("error" if "The outcome is: Error" in out else None)
        run.stage_info.append({"stage": "apalache:%s/%s/%s/%d" % (cinit, init, inv, length), "module": "CliPoolInd", "outcome": res, "wall_s": round(time.time() - t, 1)})
        return res, out
    plan = [("CInit", "Init", "IndInv", 0, "ok"), ("CInit", "IndInit", "IndInv", 1, "ok"), ("CInitSeq", "Init", "IndInv", 0, "ok"), ("CInitSeq", "IndInit", "IndInv", 1, "ok"),
            ("CInit", "IndInit", "NoExitState", 0, "error"), ("CInit", "IndInit", "NoFullHouse", 0, "error")]
    for cinit, init, inv, length, want in plan:
        res, out = ap(cinit, init, inv, length)
        if res is None:
            run.notes.append("apalache %s/%s/%s: no outcome within the time limit - skipped" % (cinit, init, inv))
            return
        if res != want:
            raise_spec(run, "Apalache: %s %s %s length %d gave %s, expected %s" % (cinit, init, inv, length, res, want), out)
    # sabotage: without the semaphore guard the invariant must not be inductive
    m = os.path.join(d, "mut")
    os.makedirs(m, exist_ok=True)
    src = open(os.path.join(d, "CliPool.tla")).read()
    assert "/\\ sem < N" in src
    open(os.path.join(m, "CliPool.tla"), "w").write(src.replace("/\\ sem < N", "/\\ TRUE", 1))
    shutil.copy(os.path.join(d, "CliPoolInd.tla"), m)
    res, out = ap("CInit", "IndInit", "IndInv", 1, cwd=m)
    if res == "ok":
        raise_spec(run, "Apalache: the pool without its semaphore guard still satisfies IndInv", out)
    shutil.rmtree(d, ignore_errors=True)


def raise_spec(run, what, out):
    from infra import Infra
    raise Infra("%s -- the specification itself is inconsistent (machinery problem, not a verdict):\n%s" % (what, run.tail(out)))


PATH_RULE = ("TLC enumerates every document of the Store machine over elements a/b, attribute x, text '1' within the node bound and evaluates "
             "the family's expression pool from every node (absolute forms from the root); the harness replays each case in unabbreviated and "
             "abbreviated syntax on the real evaluator; recorded random sessions (documents up to 30 nodes, depth-2 expressions) are judged by "
             "Trace_Xsel; non-trivial = specified value is a non-empty node-set / non-NaN number / non-empty string / true")

PROPS = {
    "C02": {"run": c02, "rule": PATH_RULE + "; pool: 12 (quick 7) axes x 3 tests x 21 predicates, two-predicate chains, filter expressions with continuations",
            "exhaustive": {"quick": True, "thorough": True}, "assumptions": BASE_ASSUME},
    "C03": {"run": c03, "rule": PATH_RULE + "; pool: 12 node-set operands, all pairwise unions, nested unions, count() of unions; every case is judged for "
            "duplicates, foreign nodes, Pos() monotonicity and direction", "exhaustive": {"quick": True, "thorough": True}, "assumptions": BASE_ASSUME},
    "C18": {"run": c18, "rule": PATH_RULE + "; pool: 10 relative suffixes from every start node, 5 prefixes x suffixes from the root, P/f() and f(P) for the "
            "seven context-dependent builtins", "exhaustive": {"quick": True, "thorough": True}, "assumptions": BASE_ASSUME},
    "C04": {"run": c04, "rule": "TLC enumerates (a) 33 numerals incl. NaN, +-Infinity, +-0, negative and non-integral dyadics: string()/concat()/boolean()/not(not())/predicate use; "
            "(b) every character sequence of length <= StrLen (quick 3, thorough 4) over {0 1 9 . - + e sp nl nbsp x I} plus 17 hand-picked spellings (Infinity, NaN, 0x10, 1e3, padded, -0 ...): "
            "number(), +0, =1, <2, unary minus, boolean(); (c) every node of every Store-machine document: string(), number(), boolean(), GetCursorString and node-set -> string through 12 axes "
            "(first node in document order); laws checked by TLC on the specification: read-back, no exponent, integer without point; random recorded sessions judged by Trace_Xsel. "
            "non-trivial = specified value is not the empty string / NaN / false / empty set",
            "exhaustive": {"quick": True, "thorough": True},
            "assumptions": BASE_ASSUME + ["numbers: only the exact abstract domain (dyadic rationals of small magnitude, correctly rounded small quotients, NaN, infinities, both zeros); doubles beyond it (>2^31, subnormals) are not judged by this check"]},
    "C05": {"run": c05, "rule": "TLC enumerates all ordered pairs of 40 operands (11 node-sets incl. empty / multi-valued / reverse-ordered, 15 numbers incl. NaN +-0 +-Infinity, 12 strings, 2 booleans) x 6 operators, "
            "operands bound as variables and written inline; laws checked on the specification: L<R == R>L, symmetry of = and !=, empty-set and NaN laws, existence of A=B and A!=B", "exhaustive": {"quick": True, "thorough": True}, "assumptions": BASE_ASSUME},
    "C06": {"run": c06, "rule": "TLC enumerates all ordered pairs of 44 operands (33 numerals, 11 node-sets) x {+ - * div mod}, unary minus, floor/ceiling/round/number, sum/count, as variables and inline literals; "
            "laws on the specification: totality, commutativity, mod sign/magnitude, floor <= x <= ceiling; results compared bit-exactly (NaN-aware, sign of zero)", "exhaustive": {"quick": True, "thorough": True},
            "assumptions": BASE_ASSUME + ["numbers: the exact abstract domain only (see C04)"]},
    "C07": {"run": c07, "rule": "TLC enumerates all strings of length <= StrLen (quick 4, thorough 5) over {a b sp nl nbsp w2 w4 cm} for the unary functions, all pairs of strings <= 3 over {a b w2} for the binary ones, "
            "all triples for translate, 4 mixed-width strings x 38 x 38 position/length numerals for substring; the harness instantiates the width classes with seeded runes and compares exact strings; "
            "the recommendation's printed examples are ASSUMEs of the model", "exhaustive": {"quick": True, "thorough": True},
            "assumptions": BASE_ASSUME + ["Unicode: an 8-symbol alphabet of width/class representatives (1-4 byte UTF-8, combining mark, XML and non-XML white space), re-instantiated by VERIF_SEED"]},
    "C10": {"run": c10, "replay": c10_replay,
            "rule": "TLC enumerates every Parser-contract-conforming event stream of at most MaxEvents (quick 6, thorough 7) events over 2 element names, 1 attribute, namespace "
                    "declarations p->U1, p->U2 (override / redeclaration) and the default namespace, text, comment, PI, End and surplus End at the root; each is fed to store.CreateInMemory "
                    "through a scripted parser.Parser and the complete cursor snapshot (object identity, Pos, Parent, three lists) is judged by Trace_Store: mirrors the Store machine's tree, "
                    "RootZero, ListedOnce (own namespace nodes), ParentLinks, PosUnique, PosOrder; plus seeded random streams of up to 45 nodes and flat streams of 10^5 (thorough 10^6) events "
                    "with call-stack depth sampled inside Pull(); every trace line is a distinct run", "exhaustive": {"quick": True, "thorough": True},
            "assumptions": BASE_ASSUME + ["stack usage is observed as call depth (runtime.Callers) inside the scripted parser in a child process with a 48 MB stack cap; the relative order of an element's namespace nodes is not constrained"]},
    "C11": {"run": c11, "rule": "TLC enumerates every Store-machine document (elements a in no namespace / U1, b in U2, attributes x in none / U1, a document-side prefix d, PI, text) within the node bound x 7 prefix maps "
            "over {p,q} -> {U1,U2} (unbound, aliases, rebinding) x 33 expressions (prefixed / unprefixed / p:* / *:x name tests on elements and attributes, variables of the four types in three namespaces, "
            "user functions of five kinds incl. one shadowing count(), unbound prefix / variable / function); laws checked on the specification: invariance under swapping the query's prefixes, selection by URI only",
            "exhaustive": {"quick": True, "thorough": True}, "assumptions": BASE_ASSUME + ["unbound references are generated only in positions every evaluation strategy evaluates"]},
    "C12": {"run": c12, "rule": "TLC enumerates every document within the bound and every node as context: local-name/namespace-uri/name with 0 arguments and with 11 axis arguments (first node in document order, "
            "also after reverse axes), PI / namespace / attribute / empty arguments, count() of non-node-sets, P/name(); lang(L) for 9 tags (case variants, prefixes, empty, trailing '-') from every "
            "context kind over documents with xml:lang in {en, EN-us, fr, ''} at every placement; laws: name = local-name iff no namespace, {uri}local otherwise, lang case-insensitive and inherited from the parent",
            "exhaustive": {"quick": True, "thorough": True}, "assumptions": BASE_ASSUME},
    "C13": {"run": c13, "replay": session_replay, "rule": "TLC enumerates every history of MaxSteps (quick 3, thorough 4) calls of the Xsel system specification: Exec of 10 expressions over held node-sets $v/$w "
            "(unions with variables on either side, reverse axes, filters, count) and client-side re-slicing (prefixes with spare capacity, suffixes, empty slices); each history is replayed on the "
            "real library with real Go slices and every call is logged at its return with all held node-sets (element by element) and a digest of the whole cursor tree (kinds, names, values, Pos, list sizes); "
            "Trace_Xsel judges the result of every call (= Eval, so repeats and re-compilations agree) and the frame condition between consecutive lines; plus seeded random sessions of 20-50 calls on random documents; "
            "the model with LegacyUnionInPlace must violate Frame (non-vacuity)", "exhaustive": {"quick": True, "thorough": True},
            "assumptions": BASE_ASSUME + ["a compiled expression is observed through its behaviour (results of later calls), not by inspecting the Grammar value"]},
    "C14": {"run": c14, "replay": c14_replay, "rule": "library: TLC enumerates every workload of the 2-thread Xsel system specification (3 calls, quick; 4 thorough) over shared held node-sets; each is run by real goroutines "
            "sharing one cursor tree and ONE compiled expression per query, 6 (25) repetitions, in a harness built with the Go race detector; every concurrent result must equal the serial execution's "
            "(which must equal the specification's), held node-sets must be unchanged at the end, no race report. command: CliPool is model-checked (invariants, deadlock freedom, termination under weak "
            "fairness) for several (files, N); TLC-simulated behaviours of CliPool are enforced as schedules on the race-built verif binary through the gate hook, plus seeded random-yield runs on 2-6 "
            "files with N in 1..4; every hook trace is judged by Trace_CliPool and stdout is compared block-wise with -c 1", "exhaustive": {"quick": False, "thorough": False},
            "assumptions": BASE_ASSUME + ["data races are detected by the Go race detector on the executions that happen (no exhaustive schedule control inside the library: it has no hooks)",
                                          "hook events that add to a counted resource are logged after the real action, those that remove from it before, so the logged occupancy never exceeds the real one"]},
    "C16": {"run": c16, "replay": adapter_replay,
            "rule": "TLC steps the JsonAdapter machine (a transcription of jsonParser.Pull: stack of [state, onField, emitEnd]) Pull by Pull over every JSON text of the value pool - 12 scalars, "
            "5 unusual keys, all arrays/objects of width <= 2 over 3 leaves, depth-2 (thorough 3) containers over 7 representatives incl. empty containers and duplicate keys, pairs of top-level values - "
            "and checks PrefixOK / CompleteAtEOF / ContractOK; each text is rendered 4 ways (plain; seeded white space, alternative number spellings, \\u escapes), read through xsel.ReadJson and through a "
            "Pull-logging wrapper; every proper prefix of the plain text that is not itself complete and 16 single-character mutations must give an error (oracle for 'complete': encoding/json's validating Decode); "
            "random values of depth <= 4 are recorded and their Pull streams judged by Trace_Store (JsonRun) together with the resulting cursor snapshots (StoreRun)",
            "exhaustive": {"quick": True, "thorough": True}, "assumptions": BASE_ASSUME + ["encoding/json's Decode is the oracle for whether a mutated/truncated text is a sequence of complete JSON values"]},
    "C17": {"run": c17, "replay": adapter_replay,
            "rule": "TLC builds every DOM shape of <= MaxNodes-1 (quick 4, thorough 5) element/text/comment nodes with attributes under a document node with a doctype and steps the HtmlAdapter machine "
            "(a transcription of htmlParser.Pull with its four flags) over it: PrefixOK, CompleteAtEOF (up to surplus End at the root), ContractOK; each shape is rendered as body content; seeded tag soup "
            "(26 tag names incl. svg/math/template/select/table, void elements, mis-nested end tags, xmlns / xmlns:xlink / xlink:href / prefixed attributes, comments after </html>) is parsed by "
            "golang.org/x/net/html (the oracle the property names); the DOM, the Pull stream and the cursor snapshot are logged and Trace_Store judges Pulls = HtmlEvents(DOM) and the Cursor contract",
            "exhaustive": {"quick": True, "thorough": True}, "assumptions": BASE_ASSUME + ["golang.org/x/net/html.Parse is the HTML5 parsing algorithm (the property's own oracle)"]},
    "C09": {"run": c09, "replay": adapter_replay,
            "rule": "TLC builds every well-formed, namespace-conformant item sequence of <= 4 items (+ closing tags) over 8 start tags (quick; thorough: the full product of 3 QNames x 6 declaration sets x 3 attribute sets) "
            "- default namespace, its undeclaration xmlns='', prefix override, alias, inherited prefix use, prefixed/unprefixed attributes - 4 character-data items (plain, CDATA with markup characters, references, white space), "
            "comment and PI inside and outside the document element, and checks Refines (the Store machine fed with XmlEvents builds XmlTree) and DataModelOK; each document is serialised 4 ways (no declaration; UTF-8 with p/q swapped; "
            "an 8-bit encoding label with other prefix spellings; declaration without encoding) with seeded quoting, empty-element tags, CDATA/reference spelling, then read through xsel.ReadXml and through a Pull-logging "
            "wrapper: tree vs XmlTree, Pull stream vs XmlEvents, snapshot judged by Trace_Store; 8 malformed variants per document (unclosed, mismatched tag, undefined entity, control character, bare &, stray <, invalid UTF-8, unknown encoding) must give an error",
            "exhaustive": {"quick": True, "thorough": True},
            "assumptions": BASE_ASSUME + ["8-bit encodings are exercised only on code points where IANA and WHATWG tables agree (0x00-0x7F, 0xA0-0xFF); other characters are written as character references",
                                          "CR and attribute-value TAB/LF are generated only as character references (normalisation is the decoder's business)"]},
    "C19": {"run": c19, "replay": session_replay,
            "rule": "TLC enumerates 35 target types (structs with string/bool/int*/uint*/float fields, pointer and pointer-to-pointer fields, slice fields of primitives / pointers / structs, nested structs by value and by pointer, "
            "untagged fields, an unexported tagged field, map/array/chan/interface/func fields, multi-dimensional slices; slice targets of primitives, pointers, structs; bare primitives and unsupported kinds) x 4 ways of passing the target "
            "(pointer, non-pointer, nil pointer, nil) x 7 query results (one node, two nodes, empty, many, number, string, boolean) = 980 calls; Laws (only a non-nil pointer to a struct/slice can succeed; a struct needs exactly one node; "
            "one slice element per node) are checked on the specification; the harness builds each type with reflect.StructOf/PointerTo/SliceOf, pre-fills untagged fields with sentinels (also in nested structs), calls xsel.Unmarshal under recover "
            "and compares the projected target with the specification's filled value", "exhaustive": {"quick": True, "thorough": True},
            "assumptions": BASE_ASSUME + ["numeric field values are only judged when exactly representable in the field type (conversion of NaN / out-of-range numbers is not constrained)",
                                          "unexported tagged fields are exercised through one statically declared type (reflect.StructOf cannot create them)"]},
    "C20": {"run": c20, "replay": c20_replay,
            "rule": "TLC enumerates 6 argument trees (flat files; a directory with xml/json and a sub-directory with html; well-formed, malformed, entity-using, .txt, extension-less and dangling-symlink files) x all combinations of "
            "-a -m (exclusive) -n -r, -t in {none, xml, json}, -e foo=bar, and three query kinds (node-set, empty node-set, number) = 1296 command lines; CliOutput.tla yields per file whether it is visited, the parse type, whether a "
            "diagnostic is owed, the record kind (none / first / each / xml) and the prefix; Laws are checked on the specification; the harness materialises the tree, runs the freshly built command, and checks stdout per file "
            "(records contiguous, in result order, texts derived from the library API with the same bindings -s/-v/-e; -m records re-parsed with ReadXml and compared with the node's subtree) and stderr for owed diagnostics; "
            "four query variants exercise -s and -v bindings, text/comment/PI/attribute results", "exhaustive": {"quick": True, "thorough": True},
            "assumptions": BASE_ASSUME + ["outcomes the specification does not determine (e.g. JSON text forced to be read as XML) are skipped", "values contain no newline characters",
                                          "stand-alone -m serialisation of attribute and namespace nodes is not constrained",
                                          "-m records of subtrees holding names that are not XML names (#obj / #arr of the JSON mapping) cannot parse back; only their shape (one line, an element) is checked"]},
    "C08": {"run": c08, "replay": adapter_replay,
            "rule": "TLC enumerates EVERY string of at most MaxLen (quick 3, thorough 4) lexemes over four alphabets - core (names a div or child text, number, literal, $v, ( ) [ ] / // | - * = , :: @ . ..), "
            "ops (all binary operators, operator names, parentheses), paths (names with - . #, node types, axis names as names, QName, p:*, *:a, ( ) / // :: @ * [ ]), lex (_x, '1.', fractions, prefixed variable/function, non-ASCII literal/name) - "
            "and XGrammar.tla (section 3.7 classification + recursive descent over the EBNF with the documented extensions) decides accept/reject, the AST and its value on a fixed document from two context nodes; "
            "each string is rendered with single spaces, minimal spaces and random XML white space; BuildExpr must accept exactly the accepted strings, never panic, and the compiled query must evaluate to the AST's value; "
            "the parser is validated inside TLC by Parse(Unparse(e)) = e on 500+ ASTs and by the precedence/associativity facts of the property (ASSUMEs); those ASTs are also replayed in four renderings "
            "(minimal / redundant parentheses x abbreviated / not, random white space); recorded random expressions in random renderings are judged by Trace_Xsel; non-trivial = accepted strings",
            "exhaustive": {"quick": True, "thorough": True},
            "assumptions": BASE_ASSUME + ["lexemes are rendered by the harness with a NeedsSpace rule so that the text tokenises into the intended lexemes; arbitrary byte strings are C15's business"]},
    "C15": {"run": c15, "replay": c15_replay, "level": "exploration",
            "rule": "structured inputs from the specification's generators - every lexeme string up to the bound over the core and lex alphabets (accepted and rejected) and all 980 Unmarshal calls of MC_Unmarshal - replayed for "
            "totality only; plus seeded mutation fuzzing in 16 child processes: rendered well-typed random expressions (must never yield 'xpath query panic') and byte-mutated ones through BuildExpr / Exec / ExecAs* with variable, "
            "namespace and function bindings from random context nodes; byte-mutated XML / HTML / JSON through the three readers followed by a query over the returned tree; xsel.Unmarshal with 22 target values of every kind "
            "(nil, non-pointers, nil pointers, pointer chains, interfaces, maps, channels, functions, arrays, nested slices); adversarial depth (nested parentheses, minus chains, step chains, sums, predicates, nested calls, nested "
            "elements/arrays up to depth 800, thorough 4000); a crashed or hung child is a violation; distinct = distinct input strings, non-trivial = inputs that got past the first stage (compiled / parsed / filled)",
            "exhaustive": {"quick": False, "thorough": False},
            "assumptions": ["the Go runtime reports every panic through recover() except fatal errors, which are observed as child process exits", "hang detection is a 15-minute limit per batch"]},
    "C01": {
        "run": c01,
        "rule": "TLC enumerates every document the Store machine can build within the node bound (all kinds, names a/b x {no namespace,U1}), "
                "every node as context, 13 axes x 10 node tests, each rendered in unabbreviated and abbreviated syntax; a case is non-trivial when the "
                "specified node set is non-empty; distinct = distinct (document, context, expression)",
        "exhaustive": {"quick": True, "thorough": True},
        "assumptions": BASE_ASSUME,
    },
}
