"""Per-property pipelines for bin/check.  Each entry: run(run, tier) drives the stages;
rule/assumptions/exhaustive feed the evidence file."""

VALUE_ASPECTS = {"value", "unexpected-error", "error-expected", "panic", "build", "tree", "nil-nil"}
ORDER_ASPECTS = {"order"}

BASE_ASSUME = [
    "TLC 1.8.0 and the CommunityModules Json/IOUtils/SequencesExt modules are correct",
    "the transcription of XPath 1.0 / XML Namespaces into /verif/spec (cross-checked by the MC_* invariants) is faithful",
    "the Go harness faithfully renders ASTs to XPath text, builds the abstract document through a scripted parser.Parser and projects cursors (pointer identity) back to node ids",
]

Q = lambda tier, q, t: q if tier == "quick" else t


def c01(run, tier):
    # 1. design level: the axis laws of the property on every reachable document
    cfg = run.cfg("MC_C01.cfg", {"MaxNodes": Q(tier, 5, 6)}, "mc.cfg")
    ok, out = run.tlc_mc("MC_C01", cfg, "axis-laws", timeout=Q(tier, 300, 1500))
    if not ok:
        raise_spec(run, "MC_C01 invariant violated", out)
    # 2. spec -> code: every (document, context node, axis, node test)
    cfg = run.cfg("Gen_C01.cfg", {"MaxNodes": Q(tier, 4, 5)}, "gen.cfg")
    rep = run.tlc_gen_replay("MC_C01", cfg, "steps", timeout=Q(tier, 300, 1800))
    run.absorb(rep, VALUE_ASPECTS)
    # 3. code -> spec: random larger documents and multi-step paths, recorded and judged by Trace_Xsel
    for i in range(Q(tier, 1, 4)):
        run.trace_validate(["-fam", "paths", "-n", str(Q(tier, 2500, 20000)), "-sub", str(i)], "paths%d" % i)


def paths_family(run, tier, fam, mc_cfg, order, value, trace_fam, mc_nodes, gen_nodes):
    scale = '"%s"' % Q(tier, "small", "full")
    cfg = run.cfg(mc_cfg, {"MaxNodes": mc_nodes, "Scale": scale}, "mc.cfg")
    ok, out = run.tlc_mc("MC_Paths", cfg, "laws", timeout=Q(tier, 400, 2400))
    if not ok:
        raise_spec(run, "MC_Paths invariant violated", out)
    cfg = run.cfg("Gen_Paths.cfg", {"MaxNodes": gen_nodes, "Family": '"%s"' % fam, "Scale": scale}, "gen.cfg")
    rep = run.tlc_gen_replay("MC_Paths", cfg, fam, timeout=Q(tier, 400, 2400))
    aspects = set()
    if value:
        aspects |= VALUE_ASPECTS
    if order:
        aspects |= ORDER_ASPECTS
    run.absorb(rep, aspects)
    for i in range(Q(tier, 1, 4)):
        run.trace_validate(["-fam", trace_fam, "-n", str(Q(tier, 2500, 20000)), "-sub", str(i)], "%s%d" % (trace_fam, i),
                           order_aspect=order, value_aspect=value)


def c02(run, tier):
    paths_family(run, tier, "C02", "MC_Paths.cfg", False, True, "preds", Q(tier, 5, 6), Q(tier, 5, 6))


def c03(run, tier):
    paths_family(run, tier, "C03", "MC_C03.cfg", True, False, "paths", Q(tier, 4, 5), Q(tier, 5, 6))
    # the C01 step cases judged for order / duplicates as well
    cfg = run.cfg("Gen_C01.cfg", {"MaxNodes": Q(tier, 4, 5)}, "gen01.cfg")
    rep = run.tlc_gen_replay("MC_C01", cfg, "steps", timeout=Q(tier, 300, 1800))
    run.absorb(rep, ORDER_ASPECTS)


def c18(run, tier):
    paths_family(run, tier, "C18", "MC_C18.cfg", False, True, "paths", Q(tier, 5, 6), Q(tier, 5, 6))


def raise_spec(run, what, out):
    from check import Infra
    raise Infra("%s -- the specification itself is inconsistent (machinery problem, not a verdict):\n%s" % (what, run.tail(out)))


PATH_RULE = ("TLC enumerates every document of the Store machine over elements a/b, attribute x, text '1' within the node bound and evaluates "
             "the family's expression pool from every node (absolute forms from the root); the harness replays each case in unabbreviated and "
             "abbreviated syntax on the real evaluator; recorded random sessions (documents up to 30 nodes, depth-2 expressions) are judged by "
             "Trace_Xsel; non-trivial = specified value is a non-empty node-set / non-NaN number / non-empty string / true")

PROPS = {
    "C02": {"run": c02, "rule": PATH_RULE + "; pool: 12 (quick 7) axes x 3 tests x 21 predicates, two-predicate chains, filter expressions with continuations",
            "exhaustive": {"quick": True, "thorough": True}, "assumptions": BASE_ASSUME},
    "C03": {"run": c03, "rule": PATH_RULE + "; pool: 12 node-set operands, all pairwise unions, nested unions, count() of unions; every case is judged for "
            "duplicates, foreign nodes, Pos() monotonicity and direction", "exhaustive": {"quick": True, "thorough": True}, "assumptions": BASE_ASSUME},
    "C18": {"run": c18, "rule": PATH_RULE + "; pool: 10 relative suffixes from every start node, 5 prefixes x suffixes from the root, P/f() and f(P) for the "
            "seven context-dependent builtins", "exhaustive": {"quick": True, "thorough": True}, "assumptions": BASE_ASSUME},
    "C01": {
        "run": c01,
        "rule": "TLC enumerates every document the Store machine can build within the node bound (all kinds, names a/b x {no namespace,U1}), "
                "every node as context, 13 axes x 10 node tests, each rendered in unabbreviated and abbreviated syntax; a case is non-trivial when the "
                "specified node set is non-empty; distinct = distinct (document, context, expression)",
        "exhaustive": {"quick": True, "thorough": True},
        "assumptions": BASE_ASSUME,
    },
}
