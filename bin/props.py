"""Per-property pipelines for bin/check.  Each entry: run(run, tier) drives the stages;
rule/assumptions/exhaustive feed the evidence file."""

VALUE_ASPECTS = {"value", "unexpected-error", "error-expected", "panic", "build", "tree", "nil-nil"}
ORDER_ASPECTS = {"order"}

BASE_ASSUME = [
    "TLC 1.8.0 and the CommunityModules Json/IOUtils/SequencesExt modules are correct",
    "the transcription of XPath 1.0 / XML Namespaces into /verif/spec (cross-checked by the MC_* invariants) is faithful",
    "the Go harness faithfully renders ASTs to XPath text, builds the abstract document through a scripted parser.Parser and projects cursors (pointer identity) back to node ids",
]

Q = lambda tier, q, t: q if tier == "quick" else t


def c01(run, tier):
    # 1. design level: the axis laws of the property on every reachable document
    cfg = run.cfg("MC_C01.cfg", {"MaxNodes": Q(tier, 5, 6)}, "mc.cfg")
    ok, out = run.tlc_mc("MC_C01", cfg, "axis-laws", timeout=Q(tier, 300, 1500))
    if not ok:
        raise_spec(run, "MC_C01 invariant violated", out)
    # 2. spec -> code: every (document, context node, axis, node test)
    cfg = run.cfg("Gen_C01.cfg", {"MaxNodes": Q(tier, 4, 5)}, "gen.cfg")
    rep = run.tlc_gen_replay("MC_C01", cfg, "steps", timeout=Q(tier, 300, 1800))
    run.absorb(rep, VALUE_ASPECTS)
    # 3. code -> spec: random larger documents and multi-step paths, recorded and judged by Trace_Xsel
    for i in range(Q(tier, 1, 4)):
        run.trace_validate(["-fam", "paths", "-n", str(Q(tier, 2500, 20000)), "-sub", str(i)], "paths%d" % i)


def raise_spec(run, what, out):
    from check import Infra
    raise Infra("%s -- the specification itself is inconsistent (machinery problem, not a verdict):\n%s" % (what, run.tail(out)))


PROPS = {
    "C01": {
        "run": c01,
        "rule": "TLC enumerates every document the Store machine can build within the node bound (all kinds, names a/b x {no namespace,U1}), "
                "every node as context, 13 axes x 10 node tests, each rendered in unabbreviated and abbreviated syntax; a case is non-trivial when the "
                "specified node set is non-empty; distinct = distinct (document, context, expression)",
        "exhaustive": {"quick": True, "thorough": True},
        "assumptions": BASE_ASSUME,
    },
}
