#!/usr/bin/env python3
"""manifest_add.py ID 'level text' 'technique' 'note' [category] : register / update a check in MANIFEST.json"""
import json, sys
pid, text, tech, note = sys.argv[1:5]
cat = sys.argv[5] if len(sys.argv) > 5 else "model_checking"
m = json.load(open('/verif/MANIFEST.json'))
chk = {"property_id": pid, "quick_cmd": "bin/check %s --tier quick" % pid, "thorough_cmd": "bin/check %s --tier thorough" % pid,
       "evidence_file": "/verif/evidence/%s.json" % pid, "replay_cmd_template": "bin/check %s --replay {path}" % pid, "engine": "tla-tlc-conformance",
       "level_claimed": {"category": cat, "text": text, "design_ref": "DESIGN.md section 4 " + pid}, "level_note": note, "technique": tech}
m['checks'] = [c for c in m['checks'] if c['property_id'] != pid] + [chk]
m['checks'].sort(key=lambda c: c['property_id'])
m['not_applicable'] = [x for x in m.get('not_applicable', []) if x['property_id'] != pid]
m['engines'][0]['serves_properties'] = [c['property_id'] for c in m['checks']]
json.dump(m, open('/verif/MANIFEST.json', 'w'), indent=1)
